#!/bin/bash
# usage: tools/mutant.sh <patch-or-sed-script.py> <ID> [tier]  -- applies a python edit script to /repo, runs the check, reverts.
set -u
edit="$1"; id="$2"; tier="${3:-quick}"
cd /repo || exit 2
if ! git diff --quiet; then echo "repo dirty"; exit 2; fi
case "$edit" in
  *.diff|*.patch) git apply "$edit" || { echo "apply failed"; exit 2; } ;;
  *) python3 "$edit" || { git checkout -- .; echo "edit failed"; exit 2; } ;;
esac
git diff --stat | tail -1
cd /verif && VERIF_MAX_REPORTS=1 ./check "$id" "$tier" 2>&1 | tail -${TAIL:-6}
rc=${PIPESTATUS[0]}
git -C /repo checkout -- .
echo "exit=$rc"
