#!/usr/bin/env python3
"""Writes /verif/MANIFEST.json from the table below (kept in one place so it stays consistent)."""
import json, os, subprocess
HERE = os.path.dirname(os.path.dirname(os.path.abspath(__file__)))

NA = {
 "C01": "Pure function of the program text: printed values and ending are decided by deterministic tree-walk evaluation with no thread, clock, I/O, global or failing call in it; needs an independent reference interpreter (differential / translation validation), not a simulator. The built-ins that do meet the outside world are decided under C15, C16, C17.",
 "C03": "Compares two deterministic executions of one AST (optimisation plan on / off); there is no environment choice, schedule or fault between them to own or inject.",
 "C04": "Lexical binding is a pure function of the program text; the run-time scope search is deterministic. No seam, schedule or fault exists.",
 "C05": "Value semantics of arrays is a pure function of the program. The one route that involves reclamation (string elements of nested arrays across frame resets and slot recycling) is part of C02's workload and shows there.",
 "C06": "'Accepted program never panics' is a pure function of the program; isolating a worker process to observe a panic is harness plumbing, not fault injection.",
 "C07": "Totality of lexer/parser/checker is a pure function of the source bytes; input generation or bounded enumeration decides it, not simulation.",
 "C08": "Outcome is a deterministic function of (program, build profile); the only environment parameter, the 8 MiB stack, is fixed by the statement, so there is nothing to vary or inject.",
 "C09": "Static acceptance is a pure function of the program text.",
 "C10": "Layout invariance is a metamorphic relation between two pure runs of the front end; no nondeterminism or fault is involved.",
 "C13": "String built-ins are pure functions of their arguments; bounded-exhaustive enumeration over a small alphabet (model-checking family) is the right tool.",
 "C18": "Behaviour at an analysis limit is a pure function of program size; needs size-parameterised program generation only.",
}

PENDING = {}

def chk(pid, engine, technique, text, note, design):
    return {
        "property_id": pid,
        "quick_cmd": "./check %s quick" % pid,
        "thorough_cmd": "./check %s thorough" % pid,
        "evidence_file": "evidence/%s.json" % pid,
        "replay_cmd_template": "./check %s --replay {path}" % pid,
        "engine": engine,
        "level_claimed": {"category": "exploration", "text": text, "design_ref": design},
        "level_note": note,
        "technique": technique,
    }

CHECKS = {
 "C17": chk("C17", "stdinsim",
   "deterministic simulation: seeded input texts and read(2) delivery plans with injected read errors (EIO/EINTR/EAGAIN: may surface or be retried, never a wrong line; calls continued after retryable ones) against the real read_line; oracle = split of the text at newlines, chunking independence for texts with CR; a few cases cross-checked through a real pipe into the un-hooked binary",
   "Seeded search over (input text, how the simulated kernel splits it across read(0) calls, injected read error, script shape incl. unused results behind one or two user functions, a helper declared below its function's return, read_line in a loop condition and a filtering loop on a small frame arena, lines up to 2 MiB, lines that are not UTF-8, short-circuited calls, a once-per-process first-call probe); every call's result is compared with the text split at '\\n'. Sampling, not proof: a clean batch is evidence that no chunking within the explored shapes loses, duplicates or reorders bytes.",
   "Trusts the stub of the kernel side of fd 0 (fake_libc::read: returns min(count, planned piece, remaining), then 0). CR handling and terminal line discipline are outside the statement and not generated.",
   "DESIGN.md 3.3"),
 "C16": chk("C16", "hostsim",
   "deterministic simulation: real run_host_process on a simulated host (shuttle tasks + own seeded/recordable scheduler + discrete-event clock + simulated child/pipes) with injected short reads/writes, read errors, stalls and clock jitter; history oracle; schedule recorded, minimised and replayed; a few cases cross-checked against the real OS with a real helper child",
   "Seeded search over (child script, limits, policies, pipe capacity, fault plan) x schedules of the wait loop, stdin writer, two reader threads, child and clock. The oracle derives the legal outcomes from the recorded history (what the child really wrote, when it exited, what the loop compared): complete result, or the matching error, child reaped, progress within a step budget. Sampling, not proof.",
   "The OS (process, pipes, kill/wait, clock, scheduler) is a model written for this check; shuttle treats atomics as sequentially consistent. Grandchildren holding pipes and waitpid failures are outside the statement.",
   "DESIGN.md 3.1"),
 "C15": chk("C15", "hostsim",
   "deterministic simulation: generated builder scripts run by the real runtime on the simulated host with injected spawn errors; reference model of the builder and of the documented limits; recorded spawn requests; a few cases cross-checked against the real OS (un-hooked binary + helper child reporting argv/env/cwd/stdin)",
   "Seeded search over host policy / small limits / builder histories (variables, array slots, copies, functions, helpers mutating a captured builder with unused results, builders replaced by assignment, loops, adversarial strings, standard-input texts of several pipe buffers up to the 1 MiB limit) and two schedules each. Refused => the documented error and zero spawn attempts beyond the allowed ones; spawned => the recorded Command equals the model byte for byte and the child reads exactly the configured stdin.",
   "std::process::Command is a recording stub: that the OS receives what std was given (no shell) is trusted. When a command is both forbidden and invalid either refusal is accepted. One real-OS scenario (bare program name through an overridden PATH, file without #!) is known finding K2 (known_findings.jsonl).",
   "DESIGN.md 3.2"),
 "C02": chk("C02", "memsim",
   "deterministic simulation of the memory reclaimer: generated programs run with reclamation off (reference) and on under an adversarial reclaimer (poison/scribble on free, tiny pools forcing exhaustion and fallback); differential oracle",
   "Seeded search over typed programs biased to the shapes that store, return, alias and recycle strings/arrays/builders, times reclaimer knobs. Every program's printed values and ending must equal the reference configuration's; a death of the interpreter with reclamation on is a violation. Sampling, not proof.",
   "The reference is the interpreter itself with frame = None, as the property defines it. Rejected programs, reference stack overflows/deaths and genuine allocation failures are discarded and counted, except in the calibrated array-return template, whose death with reclamation active is known finding K1 (known_findings.jsonl).",
   "DESIGN.md 3.6"),
 "C11": chk("C11", "vmsim",
   "deterministic simulation with fault injection: seeded operation histories against the real bump/scratch arenas over a simulated kernel VM (mmap/mprotect seam) that chooses where each reservation lands (seeded page offset from a 1 MiB boundary) and refuses chosen commits and reservations; shadow model of live ranges, canaries and pages checked after every operation",
   "Seeded search over histories of allocate/grow/shrink/deallocate/reset/decommit/Vec and string growth and drop/nested scratch borrows with injected commit and reserve failures. Placement, bounds, alignment, committed pages, contents of every live block and object, clean failure, decommit watermark, scratch flip/flop and offset restoration are checked after each operation. Sampling, not proof.",
   "Real pages; the stub only decides where reservations are placed inside a window it owns, which mmap/mprotect calls fail, and mirrors page state. Caller-contract violations are not issued.",
   "DESIGN.md 3.4"),
 "C12": chk("C12", "poolsim",
   "deterministic simulation: seeded allocate/release histories by several owners against the real string pool with class exhaustion and full backing arena as injected resource faults; multiset/interval reference model with conservation invariant after every operation",
   "Seeded search over histories (1-16 owners, LIFO/FIFO/random release, sizes at class boundaries, tiny classes, focused histories) checked operation by operation against a model: no overlap, class and slot boundary, live+free+never-used == capacity, free list == returned slots, release lands on its own class, fallback memory fresh and never recycled, contains() exact. Weakest fit for this family (single-threaded, no time or I/O) and said so in DESIGN.md.",
   "Driven through cfg-gated public wrappers over the crate-private pool; buffers are released with the size they were requested with, as the runtime does.",
   "DESIGN.md 3.5"),
 "C14": chk("C14", "sessionsim+clidiff",
   "deterministic simulation of run histories in one process over the process-global scratch arenas with faults between runs (wasm-like no-op decommit, junk scribbling of all dead memory, runs ended early by planted errors), oracle = each program alone on fresh arenas; plus configuration differential of the real naija binary (file/--eval/stdin in seeded chunks) against the library prediction",
   "Sessions: seeded sequences of generated programs (45 % with a planted lexical/syntax/static/warning/runtime error) through a call-for-call native replica of the playground entry point, stale memory kept and scribbled between runs, every source handed over in the same reused block (equal-length layout twins back to back), a quarter of the sessions sharing one simulated standard input; every run must equal the same program alone and repeats must be identical. CLI: stdout bytes and exit status of the un-hooked binary equal the library's prediction on the three input routes. Sampling, not proof.",
   "The playground entry point is a native replica of wasm/src/lib.rs (not compiled here). The CLI part has no fault or schedule beyond stdin chunking and is labelled configuration differential testing.",
   "DESIGN.md 3.7"),
}

def main():
    repo_commits = []
    try:
        log = subprocess.run(["git", "-C", "/repo", "log", "--format=%h %s"], capture_output=True, text=True).stdout
        repo_commits = [l.split()[0] for l in log.splitlines() if l.split(" ", 1)[1].startswith("verif hook")]
    except Exception:
        pass
    na = [{"property_id": k, "reason": v} for k, v in sorted(NA.items())]
    for k, v in sorted(PENDING.items()):
        if k not in CHECKS:
            na.append({"property_id": k, "reason": v})
    na.sort(key=lambda x: x["property_id"])
    m = {
        "version": 1,
        "setup_cmd": "./check setup",
        "hooks": {
            "guard": "--cfg naijascript_verif",
            "enable": "RUSTFLAGS=\"--cfg naijascript_verif\" NAIJASCRIPT_VERIF_DIR=/verif/sim/shim cargo build --offline --profile simdbg|simrel in /verif/sim (shadow manifest generated by sim/gen_manifest.py whose [lib] path is /repo/src/lib.rs; /repo/Cargo.toml and Cargo.lock are not touched); ./check does this on every invocation",
            "baseline_off_cmd": "cd /repo && cargo nextest run --workspace --no-fail-fast --tool-config-file pb:/w/lib/nextest.toml --profile pb --test-threads 8 --offline",
            "source_commits": repo_commits,
            "add_only": True,
        },
        "engines": ENGINES,
        "checks": [CHECKS[k] for k in sorted(CHECKS)],
        "not_applicable": na,
        "notes": "One driver (./check) builds the hooked library from /repo's working tree (shadow manifest, two profiles: simdbg = debug assertions on, simrel = optimised, no debug assertions) and runs sim/harness (binary simcheck). VERIF_SEED selects the master seed (default 20260925); VERIF_JOBS the worker count. Exit 2 = harness error. See DESIGN.md.",
    }
    with open(os.path.join(HERE, "MANIFEST.json"), "w") as f:
        json.dump(m, f, indent=1)
        f.write("\n")

ENGINES = [
 {"name": "vmsim", "path": "sim/harness/src/c11.rs + sim/shim/libc.rs", "serves_properties": ["C11"], "kind_free_text": "operation histories over real arenas with a simulated kernel VM (failing commits/reserves, page model)"},
 {"name": "poolsim", "path": "sim/harness/src/c12.rs + sim/shim/pool_api.rs", "serves_properties": ["C12"], "kind_free_text": "multi-owner allocate/release histories against a multiset model, exhaustion faults"},
 {"name": "sessionsim+clidiff", "path": "sim/harness/src/c14.rs", "serves_properties": ["C14"], "kind_free_text": "run histories over the global scratch arenas with stale-memory faults; real naija binary differential"},
 {"name": "hostsim", "path": "sim/harness/src/hostsim.rs + c15.rs + c16.rs + sim/shim/host.rs", "serves_properties": ["C15", "C16"], "kind_free_text": "shuttle-controlled tasks, own seeded/recordable/replayable Scheduler, discrete-event clock task, simulated child processes and bounded pipes, fault plan"},
 {"name": "memsim", "path": "sim/harness/src/c02.rs + prog.rs + sim/shim/mem.rs", "serves_properties": ["C02"], "kind_free_text": "typed program generator with structural shrinker; reclamation on/off differential under poison/scribble and tiny-pool knobs"},
 {"name": "stdinsim", "path": "sim/harness/src/c17.rs", "serves_properties": ["C17"], "kind_free_text": "simulated read(2) on fd 0 (sim/shim/libc.rs) under the real UnixStdin::read_line and runtime"},
]

if __name__ == "__main__":
    main()
