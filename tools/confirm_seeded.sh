#!/bin/bash
# usage: tools/confirm_seeded.sh <ID> <k> [check-id]
# 1. in the scratch worktree /tmp/wt-<ID>: apply mutants/<k>/patch.diff, run the repository's suite, run the
#    demonstration (must fail), revert, run the demonstration again (must pass).
# 2. apply the patch to /repo, run ./check <ID> quick, revert.
# Prints a one-line summary; copies the artefacts to /verif/seeded/<ID>-<k>/ .
set -u
ID="$1"; K="$2"; CHK="${3:-$ID}"
WT=${WT_PREFIX:-/tmp/wt}-$ID; M=$WT/mutants/$K
NAME=${SEED_NAME:-$ID-$K}
cd "$WT" || exit 2
git checkout -q -- src 2>/dev/null
git apply --check "$M/patch.diff" || { echo "SEEDED $NAME: patch does not apply"; exit 2; }
demo=$(ls "$M" | grep -E '^demo' | head -1)
run_demo() {
  case "$demo" in
    *.rs) name="zz_seeded_demo_${K}"; cp "$M/$demo" "tests/$name.rs"; timeout 900 cargo test --offline --test "$name" >/tmp/seeded-demo.log 2>&1; rc=$?; rm -f "tests/$name.rs"; return $rc ;;
    *.sh) cargo build --offline >/dev/null 2>&1; timeout 900 bash "$M/$demo" >/tmp/seeded-demo.log 2>&1; return $? ;;
    *) echo "no demo"; return 99 ;;
  esac
}
git apply "$M/patch.diff"
timeout 1800 cargo test --workspace --no-fail-fast --offline >/tmp/seeded-suite.log 2>&1; suite=$?
failed=$(grep -E "^test result" /tmp/seeded-suite.log | awk '{f+=$6} END {print f+0}')
run_demo; with=$?
git checkout -q -- src
run_demo; without=$?
echo "SEEDED $NAME: suite_exit=$suite failed_tests=$failed demo_with_patch_exit=$with demo_without_exit=$without"
mkdir -p /verif/seeded/$NAME
cp "$M/patch.diff" /verif/seeded/$NAME/patch.diff
cp "$M/$demo" /verif/seeded/$NAME/$demo
cp "$M/README.md" /verif/seeded/$NAME/README.agent.md 2>/dev/null
# now my check
cd /repo && git diff --quiet || { echo "repo dirty"; exit 2; }
git apply "$M/patch.diff" || { echo "apply to /repo failed"; exit 2; }
cd /verif && VERIF_MAX_REPORTS=1 ./check "$CHK" quick > /tmp/seeded-check.log 2>&1; rc=$?
git -C /repo checkout -- .
grep -E "^VIOLATION|^  class=|harness error" /tmp/seeded-check.log | head -3
tail -1 /tmp/seeded-check.log
echo "SEEDED $NAME: check_exit=$rc"
