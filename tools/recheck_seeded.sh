#!/bin/bash
# Re-runs every kept seeded change against the current checks:
#   for each /verif/seeded/<name>: git -C /repo apply patch.diff; ./check <id> quick; git -C /repo checkout -- .
# Prints one line per change: CAUGHT (exit 1) / MISSED (exit 0) / ERROR (exit 2) / NOAPPLY.
cd /verif || exit 2
git -C /repo diff --quiet || { echo "repo dirty"; exit 2; }
for d in ${1:-seeded/*/}; do d=${d%/}
  name=$(basename "$d")
  chk=$(python3 -c "import json,sys; m=json.load(open('$d/meta.json')); print(m['check_run'].split('./check ')[1].split()[0])")
  if ! git -C /repo apply --check "/verif/$d/patch.diff" 2>/dev/null; then echo "$name NOAPPLY"; continue; fi
  git -C /repo apply "/verif/$d/patch.diff"
  VERIF_MAX_REPORTS=1 VERIF_NO_MINIMISE=1 timeout 1500 ./check "$chk" quick > /tmp/recheck.log 2>&1; rc=$?
  git -C /repo checkout -- .
  cls=$(grep -m1 "^  class=" /tmp/recheck.log | sed 's/ profile.*//')
  case $rc in 1) echo "$name CAUGHT by $chk $cls";; 0) echo "$name MISSED by $chk";; *) echo "$name ERROR rc=$rc $(tail -1 /tmp/recheck.log | cut -c1-120)";; esac
done
