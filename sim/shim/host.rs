// Simulated host for xosnrdev/naijascript, compiled into the crate as
// `crate::sys::verif_shim` only under `--cfg naijascript_verif`.
//
// * `world`     – one simulated machine: discrete-event clock, child processes running
//                 generated scripts, bounded pipes, fault plan, event log.
// * `fake_std`  – what `src/sys/process_common.rs` sees instead of `std`
//                 (`use crate::sys::verif_shim::fake_std as std;`): process / thread /
//                 time / sync are simulated, everything else is the real thing.
// * `fake_libc` – what `src/sys/unix.rs` sees instead of `libc`: `read(0, ..)`,
//                 `mmap`, `mprotect`, `madvise`, `munmap` consult a simulation when one
//                 is installed and otherwise pass straight through.
// * `mem`       – reclamation probes, adversarial scribbling of reclaimed memory and the
//                 pool slot-count knob.
//
// Nothing in here draws randomness from anywhere but the numbers the harness put into the
// installed configuration, and nothing reads a real clock.

pub mod world {
    use ::std::cell::RefCell;
    use ::std::collections::VecDeque;
    use ::std::sync::Arc as StdArc;

    use ::shuttle::sync::{Condvar, Mutex, MutexGuard};

    /// One step of a simulated child process.
    #[derive(Clone, Debug, PartialEq)]
    pub enum ChildOp {
        /// write bytes to stdout in pieces of at most `chunk` bytes
        Out { data: Vec<u8>, chunk: usize },
        /// write bytes to stderr in pieces of at most `chunk` bytes
        Err { data: Vec<u8>, chunk: usize },
        /// sleep (killable)
        Sleep(u64),
        /// close the child's end of stdout / stderr while it keeps running
        CloseOut,
        CloseErr,
        /// read stdin until EOF
        DrainStdin,
        /// read up to n bytes from stdin (blocks until n bytes or EOF)
        ReadStdin(usize),
        /// exit with a status code
        Exit(i32),
        /// die by a signal of its own making
        Signal,
    }

    #[derive(Clone, Copy, Debug, PartialEq, Eq)]
    pub enum StdioKind {
        Inherit,
        Null,
        Piped,
    }

    #[derive(Debug, Default)]
    pub struct Pipe {
        pub buf: VecDeque<u8>,
        pub cap: usize,
        pub wclosed: bool,
        pub rclosed: bool,
        pub reads: u64,
        pub writes: u64,
    }

    /// What `Command::spawn` was given.
    #[derive(Clone, Debug, Default, PartialEq)]
    pub struct SpawnRequest {
        pub program: Vec<u8>,
        pub args: Vec<Vec<u8>>,
        pub cwd: Option<Vec<u8>>,
        pub env: Vec<(Vec<u8>, Vec<u8>)>,
        pub stdio: [u8; 3], // 0 inherit 1 null 2 piped
    }

    #[derive(Debug)]
    pub struct Proc {
        pub req: SpawnRequest,
        pub script: Vec<ChildOp>,
        pub epipe_die: bool,
        pub pipes: [Pipe; 3],
        pub stdio: [StdioKind; 3],
        /// Some(Some(code)) exited, Some(None) died by signal
        pub exit: Option<Option<i32>>,
        pub exit_at: u64,
        pub spawn_at: u64,
        pub killed: bool,
        pub kill_calls: u32,
        pub reaped: bool,
        /// [0] = bytes the child consumed from stdin, [1]/[2] = bytes it wrote
        pub written: [Vec<u8>; 3],
        /// bytes the runner pushed into the child's stdin pipe
        pub stdin_sent: Vec<u8>,
        /// bytes handed to the runner's readers
        pub delivered: [Vec<u8>; 3],
        pub last_try_wait_running: Option<bool>,
        pub try_waits: u32,
        pub read_after_drop: bool,
        pub kill_before_spawn: bool,
    }

    /// Fault plan of one run. Everything is materialised up front by the harness.
    #[derive(Clone, Debug, Default)]
    pub struct Faults {
        /// errno for the n-th spawn attempt (0-based), e.g. ENOENT
        pub spawn_errors: Vec<(u32, i32)>,
        /// cyclic list of upper bounds on what one pipe read returns (0 = no bound)
        pub read_limits: Vec<usize>,
        /// cyclic list of upper bounds on what one stdin write accepts (0 = no bound)
        pub write_limits: Vec<usize>,
        /// (stream 1|2, read call index on that stream, errno): that read fails
        pub read_errors: Vec<(usize, u64, i32)>,
        /// every simulated-host operation advances the clock by 0..=jitter_max ms with
        /// probability jitter_pct %
        pub jitter_pct: u64,
        pub jitter_max: u64,
    }

    #[derive(Clone, Debug, Default)]
    pub struct Config {
        /// script of the n-th spawned child; the last one repeats
        pub scripts: Vec<Vec<ChildOp>>,
        pub pipe_cap: usize,
        pub epipe_die: bool,
        pub faults: Faults,
        pub jitter_seed: u64,
        pub keep_log: bool,
    }

    /// One entry of the event log: (actor, op, a, b) at `now`.
    #[derive(Clone, Copy, Debug, PartialEq, Eq)]
    pub struct Event {
        pub now: u64,
        pub actor: u8,
        pub op: u8,
        pub a: u64,
        pub b: u64,
    }

    pub mod actor {
        pub const RUNNER: u8 = 0;
        pub const CLOCK: u8 = 1;
        pub const CHILD: u8 = 2;
        pub const WRITER: u8 = 3;
        pub const READER_OUT: u8 = 4;
        pub const READER_ERR: u8 = 5;
    }
    pub mod op {
        pub const SPAWN: u8 = 1;
        pub const SPAWN_FAIL: u8 = 2;
        pub const TRY_WAIT: u8 = 3;
        pub const WAIT: u8 = 4;
        pub const KILL: u8 = 5;
        pub const NOW: u8 = 6;
        pub const ELAPSED: u8 = 7;
        pub const SLEEP: u8 = 8;
        pub const WAKE: u8 = 9;
        pub const PIPE_WRITE: u8 = 10;
        pub const PIPE_READ: u8 = 11;
        pub const PIPE_EOF: u8 = 12;
        pub const PIPE_EPIPE: u8 = 13;
        pub const PIPE_CLOSE_W: u8 = 14;
        pub const PIPE_CLOSE_R: u8 = 15;
        pub const CHILD_EXIT: u8 = 16;
        pub const FLAG_LOAD: u8 = 17;
        pub const FLAG_CAS: u8 = 18;
        pub const READ_ERR: u8 = 19;
        pub const TIMER_FIRE: u8 = 20;
        pub const THREAD_SPAWN: u8 = 21;
        pub const THREAD_JOIN: u8 = 22;
    }

    #[derive(Debug, Default)]
    pub struct State {
        pub now_ms: u64,
        pub timers: Vec<(u64, u64)>, // (deadline, id)
        pub fired: Vec<u64>,
        pub next_timer: u64,
        pub shutdown: bool,
        pub procs: Vec<Proc>,
        pub spawn_attempts: u32,
        pub spawn_failures: u32,
        pub trace_hash: u64,
        pub events: u64,
        pub log: Vec<Event>,
        pub keep_log: bool,
        pub elapsed_reads: Vec<u64>,
        pub jitter_state: u64,
        pub jitter_advances: u64,
        pub short_reads: u64,
        pub short_writes: u64,
        pub injected_read_errors: u64,
        pub pipe_full_blocks: u64,
        pub flag_ops: u64,
        pub live_threads: i64,
        /// time of the runner's first `Instant::now()` after the latest spawn
        pub runner_start: Option<u64>,
    }

    pub struct World {
        pub st: Mutex<State>,
        pub cv: Condvar,
        pub cfg: Config,
    }

    ::std::thread_local! {
        static WORLD: RefCell<Option<StdArc<World>>> = const { RefCell::new(None) };
        // shuttle tasks are coroutines on one OS thread: keyed by task id, not by thread
        static ACTORS: RefCell<Vec<u8>> = const { RefCell::new(Vec::new()) };
    }

    pub fn new(cfg: Config) -> StdArc<World> {
        let st = State {
            keep_log: cfg.keep_log,
            jitter_state: cfg.jitter_seed,
            trace_hash: 0xcbf2_9ce4_8422_2325,
            ..State::default()
        };
        StdArc::new(World { st: Mutex::new(st), cv: Condvar::new(), cfg })
    }
    pub fn install(w: StdArc<World>) {
        WORLD.with(|c| *c.borrow_mut() = Some(w));
        ACTORS.with(|a| a.borrow_mut().clear());
    }
    pub fn uninstall() {
        WORLD.with(|c| *c.borrow_mut() = None);
    }
    pub fn installed() -> bool {
        WORLD.with(|c| c.borrow().is_some())
    }
    pub fn get() -> StdArc<World> {
        WORLD.with(|w| w.borrow().clone().expect("no simulated world installed"))
    }

    impl State {
        pub fn ev(&mut self, actor: u8, op: u8, a: u64, b: u64) {
            let e = Event { now: self.now_ms, actor, op, a, b };
            for x in [e.now, u64::from(actor), u64::from(op), a, b] {
                self.trace_hash ^= x;
                self.trace_hash = self.trace_hash.wrapping_mul(0x0000_0100_0000_01B3);
            }
            self.events += 1;
            if self.keep_log {
                self.log.push(e);
            }
        }
        fn splitmix(&mut self) -> u64 {
            self.jitter_state = self.jitter_state.wrapping_add(0x9E37_79B9_7F4A_7C15);
            let mut z = self.jitter_state;
            z = (z ^ (z >> 30)).wrapping_mul(0xBF58_476D_1CE4_E5B9);
            z = (z ^ (z >> 27)).wrapping_mul(0x94D0_49BB_1331_11EB);
            z ^ (z >> 31)
        }
    }

    /// Locks the world. Every simulated-host operation goes through here, so this is where
    /// "the machine was slow" is injected: the clock may advance a little.
    fn lock(w: &World) -> MutexGuard<'_, State> {
        let mut st = w.st.lock().unwrap();
        let f = &w.cfg.faults;
        if f.jitter_pct > 0 && f.jitter_max > 0 {
            let r = st.splitmix();
            if r % 100 < f.jitter_pct {
                let d = (r >> 32) % (f.jitter_max + 1);
                if d > 0 {
                    st.now_ms += d;
                    st.jitter_advances += 1;
                }
            }
        }
        st
    }

    // ---------------------------------------------------------------- clock

    /// Blocks the calling task for `ms` simulated milliseconds.
    pub fn sleep_ms(who: u8, ms: u64) {
        let w = get();
        let mut st = lock(&w);
        let id = st.next_timer;
        st.next_timer += 1;
        let at = st.now_ms + ms;
        st.timers.push((at, id));
        st.ev(who, op::SLEEP, ms, id);
        w.cv.notify_all();
        loop {
            if let Some(p) = st.fired.iter().position(|&f| f == id) {
                st.fired.swap_remove(p);
                st.ev(who, op::WAKE, id, 0);
                return;
            }
            st = w.cv.wait(st).unwrap();
        }
    }

    /// The clock task: pops the earliest timer, jumps `now` to it, wakes the sleeper. The
    /// harness scheduler runs this task when nothing else can run (discrete-event time) and,
    /// per run, sometimes while other tasks are runnable (a stalled machine).
    pub fn clock_task() {
        let w = get();
        let mut st = w.st.lock().unwrap();
        loop {
            if st.timers.is_empty() {
                if st.shutdown {
                    return;
                }
                st = w.cv.wait(st).unwrap();
                continue;
            }
            let (idx, _) = st.timers.iter().enumerate().min_by_key(|(_, t)| **t).unwrap();
            let (at, id) = st.timers.swap_remove(idx);
            if at > st.now_ms {
                st.now_ms = at;
            }
            st.fired.push(id);
            st.ev(actor::CLOCK, op::TIMER_FIRE, id, at);
            w.cv.notify_all();
            drop(st);
            st = w.st.lock().unwrap();
        }
    }

    /// Tells the clock task to end once no timer is pending.
    pub fn shutdown() {
        let w = get();
        let mut st = w.st.lock().unwrap();
        st.shutdown = true;
        w.cv.notify_all();
    }

    pub fn now_ms(who: u8) -> u64 {
        let w = get();
        let mut st = lock(&w);
        let n = st.now_ms;
        if who == actor::RUNNER && st.runner_start.is_none() {
            st.runner_start = Some(n);
        }
        st.ev(who, op::NOW, n, 0);
        n
    }

    pub fn elapsed_ms(who: u8, since: u64) -> u64 {
        let w = get();
        let mut st = lock(&w);
        let e = st.now_ms - since;
        st.elapsed_reads.push(e);
        st.ev(who, op::ELAPSED, e, 0);
        e
    }

    // ---------------------------------------------------------------- actors

    pub fn set_actor(a: u8) {
        let me = usize::from(::shuttle::current::me());
        ACTORS.with(|c| {
            let mut v = c.borrow_mut();
            if v.len() <= me {
                v.resize(me + 1, 0);
            }
            v[me] = a;
        });
    }
    pub fn current_actor() -> u8 {
        let me = usize::from(::shuttle::current::me());
        ACTORS.with(|c| c.borrow().get(me).copied().unwrap_or(0))
    }

    // ---------------------------------------------------------------- child

    fn finish(st: &mut State, pid: usize, code: Option<i32>) {
        let now = st.now_ms;
        let p = &mut st.procs[pid];
        if p.exit.is_some() {
            return;
        }
        p.exit = Some(code);
        p.exit_at = now;
        p.pipes[0].rclosed = true;
        p.pipes[1].wclosed = true;
        p.pipes[2].wclosed = true;
        st.ev(actor::CHILD, op::CHILD_EXIT, pid as u64, code.map_or(u64::MAX, |c| c as u64));
    }

    /// Body of a simulated child process.
    pub fn child_task(pid: usize) {
        let w = get();
        let script = {
            let st = w.st.lock().unwrap();
            st.procs[pid].script.clone()
        };
        let mut own_exit: Option<Option<i32>> = None;
        'ops: for opn in &script {
            {
                let st = lock(&w);
                if st.procs[pid].killed {
                    break 'ops;
                }
            }
            match opn {
                ChildOp::Out { data, chunk } | ChildOp::Err { data, chunk } => {
                    let idx = if matches!(opn, ChildOp::Out { .. }) { 1 } else { 2 };
                    let mut broken = false;
                    for c in data.chunks((*chunk).max(1)) {
                        if !child_write(&w, pid, idx, c) {
                            broken = true;
                            break;
                        }
                    }
                    if broken {
                        let st = w.st.lock().unwrap();
                        if st.procs[pid].killed {
                            break 'ops;
                        }
                        if st.procs[pid].epipe_die {
                            // SIGPIPE
                            own_exit = Some(None);
                            break 'ops;
                        }
                    }
                }
                ChildOp::Sleep(ms) => {
                    let mut st = lock(&w);
                    let id = st.next_timer;
                    st.next_timer += 1;
                    let at = st.now_ms + ms;
                    st.timers.push((at, id));
                    st.ev(actor::CHILD, op::SLEEP, *ms, id);
                    w.cv.notify_all();
                    loop {
                        if st.procs[pid].killed {
                            break 'ops;
                        }
                        if let Some(p) = st.fired.iter().position(|&f| f == id) {
                            st.fired.swap_remove(p);
                            break;
                        }
                        st = w.cv.wait(st).unwrap();
                    }
                }
                ChildOp::CloseOut | ChildOp::CloseErr => {
                    let idx = if matches!(opn, ChildOp::CloseOut) { 1 } else { 2 };
                    let mut st = lock(&w);
                    st.procs[pid].pipes[idx].wclosed = true;
                    st.ev(actor::CHILD, op::PIPE_CLOSE_W, idx as u64, 0);
                    w.cv.notify_all();
                }
                ChildOp::DrainStdin | ChildOp::ReadStdin(_) => {
                    let want = match opn {
                        ChildOp::ReadStdin(n) => *n,
                        _ => usize::MAX,
                    };
                    let mut got = 0usize;
                    let mut st = lock(&w);
                    loop {
                        if st.procs[pid].killed {
                            break 'ops;
                        }
                        if got >= want {
                            break;
                        }
                        let p = &mut st.procs[pid];
                        let n = p.pipes[0].buf.len().min(want - got);
                        if n > 0 {
                            let v: Vec<u8> = p.pipes[0].buf.drain(..n).collect();
                            p.written[0].extend(v);
                            got += n;
                            st.ev(actor::CHILD, op::PIPE_READ, 0, n as u64);
                            w.cv.notify_all();
                            continue;
                        }
                        if p.pipes[0].wclosed {
                            break;
                        }
                        st = w.cv.wait(st).unwrap();
                    }
                }
                ChildOp::Exit(code) => {
                    own_exit = Some(Some(*code));
                    break 'ops;
                }
                ChildOp::Signal => {
                    own_exit = Some(None);
                    break 'ops;
                }
            }
        }
        let mut st = w.st.lock().unwrap();
        let code = if st.procs[pid].killed { None } else { own_exit.unwrap_or(Some(0)) };
        finish(&mut st, pid, code);
        w.cv.notify_all();
    }

    /// Child-side write of one piece; blocks while the pipe is full. `false` = EPIPE or killed.
    fn child_write(w: &World, pid: usize, idx: usize, data: &[u8]) -> bool {
        let mut off = 0;
        let mut st = lock(w);
        while off < data.len() {
            if st.procs[pid].killed {
                return false;
            }
            let p = &mut st.procs[pid];
            if p.pipes[idx].wclosed {
                // the child closed this descriptor itself: EBADF, bytes go nowhere
                return true;
            }
            if p.stdio[idx] != StdioKind::Piped {
                // inherited or /dev/null: never blocks, nothing to capture
                p.written[idx].extend_from_slice(&data[off..]);
                return true;
            }
            if p.pipes[idx].rclosed {
                st.ev(actor::CHILD, op::PIPE_EPIPE, idx as u64, 0);
                return false;
            }
            let room = p.pipes[idx].cap.saturating_sub(p.pipes[idx].buf.len());
            if room == 0 {
                st.pipe_full_blocks += 1;
                st = w.cv.wait(st).unwrap();
                continue;
            }
            let n = room.min(data.len() - off);
            p.pipes[idx].buf.extend(&data[off..off + n]);
            p.written[idx].extend_from_slice(&data[off..off + n]);
            off += n;
            st.ev(actor::CHILD, op::PIPE_WRITE, idx as u64, n as u64);
            w.cv.notify_all();
        }
        true
    }

    // ---------------------------------------------------------------- runner side of pipes

    /// Runner-side write into the child's stdin. Returns bytes accepted (≥ 1) or Err(EPIPE).
    pub fn stdin_write(pid: usize, data: &[u8]) -> Result<usize, i32> {
        if data.is_empty() {
            return Ok(0);
        }
        let w = get();
        let who = current_actor();
        let mut st = lock(&w);
        loop {
            let p = &mut st.procs[pid];
            if p.pipes[0].rclosed {
                st.ev(who, op::PIPE_EPIPE, 0, 0);
                return Err(::libc::EPIPE);
            }
            let room = p.pipes[0].cap.saturating_sub(p.pipes[0].buf.len());
            if room == 0 {
                st.pipe_full_blocks += 1;
                st = w.cv.wait(st).unwrap();
                continue;
            }
            let mut n = room.min(data.len());
            let lim = &w.cfg.faults.write_limits;
            if !lim.is_empty() {
                let k = lim[(p.pipes[0].writes as usize) % lim.len()];
                if k > 0 && k < n {
                    n = k;
                    st.short_writes += 1;
                }
            }
            let p = &mut st.procs[pid];
            p.pipes[0].writes += 1;
            p.pipes[0].buf.extend(&data[..n]);
            p.stdin_sent.extend_from_slice(&data[..n]);
            st.ev(who, op::PIPE_WRITE, 0, n as u64);
            w.cv.notify_all();
            return Ok(n);
        }
    }

    /// Runner-side read from the child's stdout (1) / stderr (2).
    pub fn capture_read(pid: usize, idx: usize, out: &mut [u8]) -> Result<usize, i32> {
        let w = get();
        let who = current_actor();
        let mut st = lock(&w);
        let call = st.procs[pid].pipes[idx].reads;
        st.procs[pid].pipes[idx].reads += 1;
        if let Some(&(_, _, errno)) =
            w.cfg.faults.read_errors.iter().find(|(s, k, _)| *s == idx && *k == call)
        {
            st.injected_read_errors += 1;
            st.ev(who, op::READ_ERR, idx as u64, errno as u64);
            return Err(errno);
        }
        loop {
            let p = &mut st.procs[pid];
            if p.pipes[idx].rclosed {
                p.read_after_drop = true;
            }
            let avail = p.pipes[idx].buf.len();
            if avail > 0 && !out.is_empty() {
                let mut n = avail.min(out.len());
                let lim = &w.cfg.faults.read_limits;
                if !lim.is_empty() {
                    let k = lim[(call as usize) % lim.len()];
                    if k > 0 && k < n {
                        n = k;
                        st.short_reads += 1;
                    }
                }
                let p = &mut st.procs[pid];
                for b in out.iter_mut().take(n) {
                    *b = p.pipes[idx].buf.pop_front().unwrap();
                }
                p.delivered[idx].extend_from_slice(&out[..n]);
                st.ev(who, op::PIPE_READ, idx as u64, n as u64);
                w.cv.notify_all();
                return Ok(n);
            }
            if p.pipes[idx].wclosed || out.is_empty() {
                st.ev(who, op::PIPE_EOF, idx as u64, 0);
                return Ok(0);
            }
            st = w.cv.wait(st).unwrap();
        }
    }

    pub fn close_runner_end(pid: usize, idx: usize) {
        if !installed() {
            return;
        }
        let w = get();
        let mut st = w.st.lock().unwrap();
        let who = current_actor();
        if idx == 0 {
            st.procs[pid].pipes[0].wclosed = true;
            st.ev(who, op::PIPE_CLOSE_W, 0, 0);
        } else {
            st.procs[pid].pipes[idx].rclosed = true;
            st.ev(who, op::PIPE_CLOSE_R, idx as u64, 0);
        }
        w.cv.notify_all();
    }

    // ---------------------------------------------------------------- process control

    pub fn spawn(req: SpawnRequest, stdio: [StdioKind; 3]) -> Result<usize, i32> {
        let w = get();
        let pid;
        {
            let mut st = lock(&w);
            let attempt = st.spawn_attempts;
            st.spawn_attempts += 1;
            if let Some(&(_, errno)) = w.cfg.faults.spawn_errors.iter().find(|(k, _)| *k == attempt)
            {
                st.spawn_failures += 1;
                st.ev(actor::RUNNER, op::SPAWN_FAIL, u64::from(attempt), errno as u64);
                return Err(errno);
            }
            pid = st.procs.len();
            let script = if w.cfg.scripts.is_empty() {
                vec![ChildOp::Exit(0)]
            } else {
                w.cfg.scripts[pid.min(w.cfg.scripts.len() - 1)].clone()
            };
            let mut pipes: [Pipe; 3] = Default::default();
            for (i, p) in pipes.iter_mut().enumerate() {
                p.cap = w.cfg.pipe_cap.max(1);
                if stdio[i] != StdioKind::Piped && i == 0 {
                    // /dev/null or an inherited stdin we model as empty
                    p.wclosed = true;
                }
            }
            let now = st.now_ms;
            st.procs.push(Proc {
                req,
                script,
                epipe_die: w.cfg.epipe_die,
                pipes,
                stdio,
                exit: None,
                exit_at: 0,
                spawn_at: now,
                killed: false,
                kill_calls: 0,
                reaped: false,
                written: Default::default(),
                stdin_sent: Vec::new(),
                delivered: Default::default(),
                last_try_wait_running: None,
                try_waits: 0,
                read_after_drop: false,
                kill_before_spawn: false,
            });
            st.runner_start = None;
            st.ev(actor::RUNNER, op::SPAWN, pid as u64, 0);
        }
        ::shuttle::thread::spawn(move || {
            set_actor(actor::CHILD);
            child_task(pid);
        });
        Ok(pid)
    }

    pub fn try_wait(pid: usize) -> Option<Option<i32>> {
        let w = get();
        let mut st = lock(&w);
        let p = &mut st.procs[pid];
        p.try_waits += 1;
        let r = p.exit;
        if r.is_some() {
            p.reaped = true;
        }
        p.last_try_wait_running = Some(r.is_none());
        st.ev(actor::RUNNER, op::TRY_WAIT, pid as u64, u64::from(r.is_some()));
        r
    }

    pub fn kill(pid: usize) {
        let w = get();
        let mut st = lock(&w);
        let p = &mut st.procs[pid];
        p.kill_calls += 1;
        if p.exit.is_none() {
            p.killed = true;
        }
        st.ev(actor::RUNNER, op::KILL, pid as u64, 0);
        w.cv.notify_all();
    }

    pub fn wait(pid: usize) -> Option<i32> {
        let w = get();
        let mut st = lock(&w);
        loop {
            if let Some(code) = st.procs[pid].exit {
                st.procs[pid].reaped = true;
                st.ev(actor::RUNNER, op::WAIT, pid as u64, 0);
                return code;
            }
            st = w.cv.wait(st).unwrap();
        }
    }

    /// Harness-side cleanup after the observations were taken: makes every child that is
    /// still alive terminate so that the execution can end.
    pub fn kill_stragglers() -> u32 {
        let w = get();
        let mut st = w.st.lock().unwrap();
        let mut n = 0;
        for p in &mut st.procs {
            if p.exit.is_none() {
                p.killed = true;
                n += 1;
            }
            p.pipes[0].wclosed = true;
            p.pipes[1].rclosed = true;
            p.pipes[2].rclosed = true;
        }
        w.cv.notify_all();
        n
    }

    pub fn flag_event(opk: u8, a: u64, b: u64) {
        if !installed() {
            return;
        }
        let w = get();
        let mut st = w.st.lock().unwrap();
        st.flag_ops += 1;
        let who = current_actor();
        st.ev(who, opk, a, b);
    }

    pub fn thread_event(opk: u8, a: u64) {
        if !installed() {
            return;
        }
        let w = get();
        let mut st = w.st.lock().unwrap();
        let who = current_actor();
        st.ev(who, opk, a, 0);
    }
}

pub mod fake_std {
    // Everything that is not process / thread / time / sync is the real std. The explicit
    // modules below shadow the glob.
    pub use ::std::*;

    pub mod sync {
        // shuttle's Mutex/Condvar/RwLock/mpsc/Once/Barrier; Arc and Weak are std's
        pub use ::shuttle::sync::*;
        pub mod atomic {
            pub use ::shuttle::sync::atomic::*;

            use super::super::super::world;

            /// The overflow flag. Delegates to shuttle's atomic (every access is a scheduling
            /// point) and logs the access.
            #[derive(Debug)]
            pub struct AtomicU8(::shuttle::sync::atomic::AtomicU8);
            impl AtomicU8 {
                pub fn new(v: u8) -> Self {
                    Self(::shuttle::sync::atomic::AtomicU8::new(v))
                }
                pub fn load(&self, o: Ordering) -> u8 {
                    let v = self.0.load(o);
                    world::flag_event(world::op::FLAG_LOAD, u64::from(v), 0);
                    v
                }
                pub fn store(&self, v: u8, o: Ordering) {
                    self.0.store(v, o);
                    world::flag_event(world::op::FLAG_CAS, u64::from(v), 2);
                }
                pub fn compare_exchange(
                    &self,
                    cur: u8,
                    new: u8,
                    s: Ordering,
                    f: Ordering,
                ) -> Result<u8, u8> {
                    let r = self.0.compare_exchange(cur, new, s, f);
                    world::flag_event(world::op::FLAG_CAS, u64::from(new), u64::from(r.is_ok()));
                    r
                }
                pub fn swap(&self, v: u8, o: Ordering) -> u8 {
                    let r = self.0.swap(v, o);
                    world::flag_event(world::op::FLAG_CAS, u64::from(v), 3);
                    r
                }
                pub fn fetch_or(&self, v: u8, o: Ordering) -> u8 {
                    let r = self.0.fetch_or(v, o);
                    world::flag_event(world::op::FLAG_CAS, u64::from(v), 4);
                    r
                }
                pub fn fetch_max(&self, v: u8, o: Ordering) -> u8 {
                    let r = self.0.fetch_max(v, o);
                    world::flag_event(world::op::FLAG_CAS, u64::from(v), 5);
                    r
                }
            }
        }
    }

    pub mod thread {
        use super::super::world;

        pub struct JoinHandle<T>(::shuttle::thread::JoinHandle<T>);
        impl<T> JoinHandle<T> {
            pub fn join(self) -> ::std::thread::Result<T> {
                let r = self.0.join();
                world::thread_event(world::op::THREAD_JOIN, 0);
                r
            }
        }

        /// Threads of the process runner are numbered in spawn order within one
        /// `run_host_process` call: the stdin writer (if any) first, then the readers.
        pub fn spawn<F, T>(f: F) -> JoinHandle<T>
        where
            F: FnOnce() -> T + Send + 'static,
            T: Send + 'static,
        {
            let kind = super::process::next_thread_actor();
            world::thread_event(world::op::THREAD_SPAWN, u64::from(kind));
            JoinHandle(::shuttle::thread::spawn(move || {
                world::set_actor(kind);
                f()
            }))
        }

        pub fn sleep(d: ::std::time::Duration) {
            world::sleep_ms(world::current_actor(), d.as_millis() as u64);
        }

        pub fn yield_now() {
            ::shuttle::thread::yield_now();
        }

        #[derive(Debug, Default)]
        pub struct Builder {
            name: Option<String>,
            stack_size: Option<usize>,
        }
        impl Builder {
            pub fn new() -> Self {
                Self::default()
            }
            pub fn name(mut self, n: String) -> Self {
                self.name = Some(n);
                self
            }
            pub fn stack_size(mut self, s: usize) -> Self {
                self.stack_size = Some(s);
                self
            }
            pub fn spawn<F, T>(self, f: F) -> ::std::io::Result<JoinHandle<T>>
            where
                F: FnOnce() -> T + Send + 'static,
                T: Send + 'static,
            {
                Ok(spawn(f))
            }
        }
    }

    pub mod time {
        pub use ::std::time::Duration;

        use super::super::world;

        #[derive(Clone, Copy, Debug, PartialEq, Eq, PartialOrd, Ord)]
        pub struct Instant(u64);
        impl Instant {
            pub fn now() -> Self {
                Instant(world::now_ms(world::current_actor()))
            }
            pub fn elapsed(&self) -> Duration {
                Duration::from_millis(world::elapsed_ms(world::current_actor(), self.0))
            }
            pub fn duration_since(&self, earlier: Instant) -> Duration {
                Duration::from_millis(self.0.saturating_sub(earlier.0))
            }
        }
        impl ::std::ops::Add<Duration> for Instant {
            type Output = Instant;
            fn add(self, d: Duration) -> Instant {
                Instant(self.0 + d.as_millis() as u64)
            }
        }
        impl ::std::ops::Sub<Instant> for Instant {
            type Output = Duration;
            fn sub(self, o: Instant) -> Duration {
                Duration::from_millis(self.0.saturating_sub(o.0))
            }
        }
    }

    pub mod process {
        use ::std::cell::Cell;
        use ::std::ffi::OsStr;
        use ::std::io;
        use ::std::os::unix::ffi::OsStrExt;
        use ::std::os::unix::process::ExitStatusExt;
        pub use ::std::process::ExitStatus;

        use super::super::world::{self, SpawnRequest, StdioKind};

        ::std::thread_local! {
            // which runner thread comes next: set by spawn() from the stdio configuration
            static NEXT_THREADS: Cell<[u8; 3]> = const { Cell::new([0; 3]) };
        }
        pub(super) fn next_thread_actor() -> u8 {
            NEXT_THREADS.with(|c| {
                let mut v = c.get();
                let k = v[0];
                v = [v[1], v[2], 0];
                c.set(v);
                if k == 0 { world::actor::READER_ERR + 1 } else { k }
            })
        }

        pub struct Stdio(StdioKind);
        impl Stdio {
            pub fn inherit() -> Self {
                Stdio(StdioKind::Inherit)
            }
            pub fn null() -> Self {
                Stdio(StdioKind::Null)
            }
            pub fn piped() -> Self {
                Stdio(StdioKind::Piped)
            }
        }

        pub struct Command {
            req: SpawnRequest,
            io: [StdioKind; 3],
        }
        fn b<S: AsRef<OsStr>>(s: S) -> Vec<u8> {
            s.as_ref().as_bytes().to_vec()
        }
        impl Command {
            pub fn new<S: AsRef<OsStr>>(p: S) -> Self {
                Command {
                    req: SpawnRequest { program: b(p), ..SpawnRequest::default() },
                    io: [StdioKind::Inherit; 3],
                }
            }
            pub fn arg<S: AsRef<OsStr>>(&mut self, a: S) -> &mut Self {
                self.req.args.push(b(a));
                self
            }
            pub fn args<I, S>(&mut self, it: I) -> &mut Self
            where
                I: IntoIterator<Item = S>,
                S: AsRef<OsStr>,
            {
                for a in it {
                    self.req.args.push(b(a));
                }
                self
            }
            pub fn current_dir<S: AsRef<OsStr>>(&mut self, d: S) -> &mut Self {
                self.req.cwd = Some(b(d));
                self
            }
            pub fn env<K: AsRef<OsStr>, V: AsRef<OsStr>>(&mut self, k: K, v: V) -> &mut Self {
                // std keeps a map: the last value per key wins
                let (k, v) = (b(k), b(v));
                if let Some(e) = self.req.env.iter_mut().find(|e| e.0 == k) {
                    e.1 = v;
                } else {
                    self.req.env.push((k, v));
                }
                self
            }
            pub fn envs<I, K, V>(&mut self, it: I) -> &mut Self
            where
                I: IntoIterator<Item = (K, V)>,
                K: AsRef<OsStr>,
                V: AsRef<OsStr>,
            {
                for (k, v) in it {
                    self.env(k, v);
                }
                self
            }
            pub fn stdin(&mut self, s: Stdio) -> &mut Self {
                self.io[0] = s.0;
                self
            }
            pub fn stdout(&mut self, s: Stdio) -> &mut Self {
                self.io[1] = s.0;
                self
            }
            pub fn stderr(&mut self, s: Stdio) -> &mut Self {
                self.io[2] = s.0;
                self
            }
            pub fn spawn(&mut self) -> io::Result<Child> {
                world::set_actor(world::actor::RUNNER);
                let mut req = self.req.clone();
                for i in 0..3 {
                    req.stdio[i] = match self.io[i] {
                        StdioKind::Inherit => 0,
                        StdioKind::Null => 1,
                        StdioKind::Piped => 2,
                    };
                }
                let pid = world::spawn(req, self.io).map_err(io::Error::from_raw_os_error)?;
                // the runner starts its helper threads in this order
                let mut order = [0u8; 3];
                let mut k = 0;
                if self.io[0] == StdioKind::Piped {
                    order[k] = world::actor::WRITER;
                    k += 1;
                }
                if self.io[1] == StdioKind::Piped {
                    order[k] = world::actor::READER_OUT;
                    k += 1;
                }
                if self.io[2] == StdioKind::Piped {
                    order[k] = world::actor::READER_ERR;
                }
                NEXT_THREADS.with(|c| c.set(order));
                Ok(Child {
                    pid,
                    stdin: (self.io[0] == StdioKind::Piped).then_some(ChildStdin(pid)),
                    stdout: (self.io[1] == StdioKind::Piped).then_some(ChildStdout(pid)),
                    stderr: (self.io[2] == StdioKind::Piped).then_some(ChildStderr(pid)),
                })
            }
        }

        pub struct Child {
            pid: usize,
            pub stdin: Option<ChildStdin>,
            pub stdout: Option<ChildStdout>,
            pub stderr: Option<ChildStderr>,
        }
        fn status(code: Option<i32>) -> ExitStatus {
            match code {
                Some(c) => ExitStatus::from_raw((c & 0xff) << 8),
                None => ExitStatus::from_raw(9),
            }
        }
        impl Child {
            pub fn id(&self) -> u32 {
                self.pid as u32
            }
            pub fn try_wait(&mut self) -> io::Result<Option<ExitStatus>> {
                Ok(world::try_wait(self.pid).map(status))
            }
            pub fn kill(&mut self) -> io::Result<()> {
                world::kill(self.pid);
                Ok(())
            }
            pub fn wait(&mut self) -> io::Result<ExitStatus> {
                // like std: close our end of the child's stdin first
                self.stdin.take();
                Ok(status(world::wait(self.pid)))
            }
        }

        pub struct ChildStdin(usize);
        pub struct ChildStdout(usize);
        pub struct ChildStderr(usize);
        impl Drop for ChildStdin {
            fn drop(&mut self) {
                world::close_runner_end(self.0, 0);
            }
        }
        impl Drop for ChildStdout {
            fn drop(&mut self) {
                world::close_runner_end(self.0, 1);
            }
        }
        impl Drop for ChildStderr {
            fn drop(&mut self) {
                world::close_runner_end(self.0, 2);
            }
        }
        impl io::Write for ChildStdin {
            fn write(&mut self, buf: &[u8]) -> io::Result<usize> {
                world::stdin_write(self.0, buf).map_err(io::Error::from_raw_os_error)
            }
            fn flush(&mut self) -> io::Result<()> {
                Ok(())
            }
        }
        impl io::Read for ChildStdout {
            fn read(&mut self, buf: &mut [u8]) -> io::Result<usize> {
                world::capture_read(self.0, 1, buf).map_err(io::Error::from_raw_os_error)
            }
        }
        impl io::Read for ChildStderr {
            fn read(&mut self, buf: &mut [u8]) -> io::Result<usize> {
                world::capture_read(self.0, 2, buf).map_err(io::Error::from_raw_os_error)
            }
        }
    }
}

pub mod fake_libc {
    include!(concat!(env!("NAIJASCRIPT_VERIF_DIR"), "/libc.rs"));
}

pub mod mem {
    include!(concat!(env!("NAIJASCRIPT_VERIF_DIR"), "/mem.rs"));
}
