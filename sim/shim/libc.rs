// `crate::sys::verif_shim::fake_libc`: the real libc with five calls routed through a
// simulation when one is installed on this thread.
pub use ::libc::*;

use ::std::cell::RefCell;

// ------------------------------------------------------------------ stdin

/// Simulated standard input: a byte stream plus a delivery plan (how many bytes each
/// `read(0, ..)` may return) and an optional list of calls that fail.
#[derive(Debug, Default)]
pub struct StdinSim {
    pub data: Vec<u8>,
    pub pos: usize,
    /// upper bound for the k-th read; the last entry repeats; empty = unbounded
    pub plan: Vec<usize>,
    /// (call index, errno): that call returns -1
    pub errors: Vec<(usize, i32)>,
    pub calls: usize,
    pub reads_after_eof: usize,
    pub past_newline: usize,
    pub max_count: usize,
    pub overflow_writes: usize,
    /// bytes the caller may write at `buf` for the k-th call as told by the harness (0 = unknown)
    pub eof_seen: bool,
    /// end-of-file is reported this many times before the stream "revives" (terminals can do that);
    /// 0 = sticky EOF
    pub log: Vec<(usize, usize)>, // (count asked, returned)
}

::std::thread_local! {
    pub static STDIN: RefCell<Option<StdinSim>> = const { RefCell::new(None) };
}

pub fn install_stdin(sim: StdinSim) {
    STDIN.with(|s| *s.borrow_mut() = Some(sim));
}
pub fn take_stdin() -> Option<StdinSim> {
    STDIN.with(|s| s.borrow_mut().take())
}

pub unsafe fn read(fd: c_int, buf: *mut c_void, count: size_t) -> ssize_t {
    if fd != 0 {
        return unsafe { ::libc::read(fd, buf, count) };
    }
    STDIN.with(|s| {
        let mut g = s.borrow_mut();
        let Some(sim) = g.as_mut() else {
            return unsafe { ::libc::read(fd, buf, count) };
        };
        let call = sim.calls;
        sim.calls += 1;
        sim.max_count = sim.max_count.max(count);
        if let Some(&(_, errno)) = sim.errors.iter().find(|(k, _)| *k == call) {
            unsafe { *::libc::__errno_location() = errno };
            sim.log.push((count, usize::MAX));
            return -1;
        }
        let chunk = if sim.plan.is_empty() {
            usize::MAX
        } else {
            sim.plan[call.min(sim.plan.len() - 1)].max(1)
        };
        let n = count.min(chunk).min(sim.data.len() - sim.pos);
        if n == 0 {
            if sim.eof_seen {
                sim.reads_after_eof += 1;
            }
            if sim.pos == sim.data.len() {
                sim.eof_seen = true;
            }
            sim.log.push((count, 0));
            return 0;
        }
        unsafe { ::std::ptr::copy_nonoverlapping(sim.data.as_ptr().add(sim.pos), buf.cast::<u8>(), n) };
        if let Some(i) = sim.data[sim.pos..sim.pos + n].iter().position(|&b| b == b'\n')
            && i + 1 < n
        {
            sim.past_newline += 1;
        }
        sim.pos += n;
        sim.log.push((count, n));
        n as ssize_t
    })
}

// ------------------------------------------------------------------ virtual memory

#[derive(Clone, Debug, PartialEq, Eq)]
pub enum VmCall {
    Reserve { base: usize, size: usize, ok: bool },
    Commit { base: usize, size: usize, ok: bool },
    Decommit { base: usize, size: usize },
    Advise { base: usize, size: usize },
    Release { base: usize, size: usize },
}

#[derive(Clone, Debug)]
pub struct Reservation {
    pub base: usize,
    pub size: usize,
    /// one flag per 4 KiB page: readable and writable
    pub committed: Vec<bool>,
    pub released: bool,
}

/// Simulated kernel side of the arena: decides from a plan which calls fail, forwards the
/// rest to the real kernel, and keeps a page model the checker compares against.
#[derive(Debug, Default)]
pub struct VmSim {
    pub commit_calls: u64,
    pub reserve_calls: u64,
    /// commit call numbers (1-based) that fail
    pub fail_commit_at: Vec<u64>,
    /// reserve call numbers (1-based) that fail
    pub fail_reserve_at: Vec<u64>,
    pub failed_commits: u64,
    pub failed_reserves: u64,
    pub decommits: u64,
    pub calls: Vec<VmCall>,
    pub keep_calls: bool,
    pub regions: Vec<Reservation>,
    pub bad_calls: Vec<String>,
    /// behave like the wasm host: decommit (mprotect(PROT_NONE) + madvise) does nothing, so
    /// freed pages keep their old bytes
    pub decommit_noop: bool,
    pub skipped_decommits: u64,
    /// Where the kernel puts a reservation is its own choice (any page-aligned address). When
    /// `controlled`, the simulated kernel makes that choice: the n-th reservation is placed at
    /// `1 MiB boundary + base_page_offsets[n] * 4 KiB` inside a window it owns, so the alignment of
    /// reservation bases is part of the seeded scenario instead of an accident of ASLR.
    pub controlled: bool,
    pub base_page_offsets: Vec<usize>,
    pub cursor: usize,
    pub placed: u64,
}

/// The address window of the simulated kernel: reserved once per process, PROT_NONE, never given
/// back, so that nothing else can land inside it.
#[derive(Clone, Copy, Debug)]
pub struct Window {
    pub base: usize,
    pub size: usize,
}
::std::thread_local! {
    static WINDOW: ::std::cell::Cell<Option<Window>> = const { ::std::cell::Cell::new(None) };
    /// reservations that outlive a run (the global scratch arenas) keep the space below this address
    static WINDOW_FLOOR: ::std::cell::Cell<usize> = const { ::std::cell::Cell::new(0) };
}
pub const MIB: usize = 1 << 20;
pub fn window() -> Window {
    WINDOW.with(|w| {
        if let Some(x) = w.get() {
            return x;
        }
        let size = 768 * MIB;
        let p = unsafe { ::libc::mmap(::std::ptr::null_mut(), size + MIB, PROT_NONE, MAP_PRIVATE | MAP_ANONYMOUS | MAP_NORESERVE, -1, 0) };
        assert!(p != MAP_FAILED, "cannot reserve the simulated kernel's address window");
        let base = (p as usize + MIB - 1) & !(MIB - 1);
        let x = Window { base, size };
        w.set(Some(x));
        WINDOW_FLOOR.with(|f| f.set(base));
        x
    })
}
pub fn window_floor() -> usize {
    window();
    WINDOW_FLOOR.with(::std::cell::Cell::get)
}
/// Everything placed so far stays for the life of the process (used after creating the globals).
pub fn raise_window_floor(to: usize) {
    WINDOW_FLOOR.with(|f| f.set(f.get().max(to)));
}
fn in_window(addr: usize) -> bool {
    WINDOW.with(|w| w.get().is_some_and(|x| addr >= x.base && addr < x.base + x.size))
}

pub const PAGE: usize = 4096;

impl VmSim {
    pub fn region_of(&self, addr: usize) -> Option<&Reservation> {
        self.regions.iter().find(|r| !r.released && addr >= r.base && addr < r.base + r.size)
    }
    /// true if every byte of [addr, addr+len) lies in committed pages of one live reservation
    pub fn is_committed(&self, addr: usize, len: usize) -> bool {
        if len == 0 {
            return self.region_of(addr).is_some()
                || self.regions.iter().any(|r| !r.released && addr == r.base + r.size);
        }
        let Some(r) = self.region_of(addr) else { return false };
        if addr + len > r.base + r.size {
            return false;
        }
        let first = (addr - r.base) / PAGE;
        let last = (addr + len - 1 - r.base) / PAGE;
        (first..=last).all(|p| r.committed[p])
    }
    pub fn committed_bytes(&self, base: usize) -> usize {
        self.regions
            .iter()
            .find(|r| !r.released && r.base == base)
            .map_or(0, |r| r.committed.iter().filter(|c| **c).count() * PAGE)
    }
    /// length of the committed prefix of the reservation at `base`
    pub fn committed_prefix(&self, base: usize) -> usize {
        self.regions
            .iter()
            .find(|r| !r.released && r.base == base)
            .map_or(0, |r| r.committed.iter().take_while(|c| **c).count() * PAGE)
    }
    fn mark(&mut self, addr: usize, len: usize, val: bool, what: &str) {
        let Some(idx) = self
            .regions
            .iter()
            .position(|r| !r.released && addr >= r.base && addr + len <= r.base + r.size)
        else {
            self.bad_calls.push(format!("{what} outside any reservation: len {len}"));
            return;
        };
        let r = &mut self.regions[idx];
        if (addr - r.base) % PAGE != 0 {
            self.bad_calls.push(format!("{what} at unaligned offset {}", addr - r.base));
            return;
        }
        let first = (addr - r.base) / PAGE;
        let n = len.div_ceil(PAGE);
        for p in first..(first + n).min(r.committed.len()) {
            r.committed[p] = val;
        }
    }
}

::std::thread_local! {
    pub static VM: RefCell<Option<VmSim>> = const { RefCell::new(None) };
}

pub fn install_vm(sim: VmSim) {
    VM.with(|v| *v.borrow_mut() = Some(sim));
}
pub fn take_vm() -> Option<VmSim> {
    VM.with(|v| v.borrow_mut().take())
}
pub fn with_vm<R>(f: impl FnOnce(&mut VmSim) -> R) -> Option<R> {
    VM.with(|v| v.borrow_mut().as_mut().map(f))
}

pub unsafe fn mmap(
    addr: *mut c_void,
    len: size_t,
    prot: c_int,
    flags: c_int,
    fd: c_int,
    off: off_t,
) -> *mut c_void {
    let fail = VM.with(|v| {
        let mut g = v.borrow_mut();
        let Some(vm) = g.as_mut() else { return false };
        vm.reserve_calls += 1;
        if vm.fail_reserve_at.contains(&vm.reserve_calls) {
            vm.failed_reserves += 1;
            if vm.keep_calls {
                vm.calls.push(VmCall::Reserve { base: 0, size: len, ok: false });
            }
            return true;
        }
        false
    });
    if fail {
        unsafe { *::libc::__errno_location() = ENOMEM };
        return MAP_FAILED;
    }
    // the simulated kernel chooses the address
    let placed_at: Option<usize> = VM.with(|v| {
        let mut g = v.borrow_mut();
        let vm = g.as_mut()?;
        if !vm.controlled || !addr.is_null() {
            return None;
        }
        let w = window();
        if vm.cursor < window_floor() {
            vm.cursor = window_floor();
        }
        let k = if vm.base_page_offsets.is_empty() { 0 } else { vm.base_page_offsets[(vm.placed as usize) % vm.base_page_offsets.len()] };
        let base = ((vm.cursor + MIB - 1) & !(MIB - 1)) + (k % 256) * PAGE;
        let len_pages = (len + PAGE - 1) & !(PAGE - 1);
        if base + len_pages > w.base + w.size {
            return None;
        }
        vm.cursor = base + len_pages;
        vm.placed += 1;
        Some(base)
    });
    let p = match placed_at {
        Some(a) => unsafe { ::libc::mmap(a as *mut c_void, len, prot, flags | MAP_FIXED, fd, off) },
        None => unsafe { ::libc::mmap(addr, len, prot, flags, fd, off) },
    };
    VM.with(|v| {
        if let Some(vm) = v.borrow_mut().as_mut() {
            let ok = p != MAP_FAILED && !p.is_null();
            if ok {
                let writable = prot & PROT_WRITE != 0;
                vm.regions.push(Reservation {
                    base: p as usize,
                    size: len,
                    committed: vec![writable; len.div_ceil(PAGE)],
                    released: false,
                });
            }
            if vm.keep_calls {
                vm.calls.push(VmCall::Reserve { base: p as usize, size: len, ok });
            }
        }
    });
    p
}

pub unsafe fn mprotect(addr: *mut c_void, len: size_t, prot: c_int) -> c_int {
    let commit = prot & PROT_WRITE != 0;
    if !commit {
        let skip = VM.with(|v| {
            let mut g = v.borrow_mut();
            match g.as_mut() {
                Some(vm) if vm.decommit_noop => {
                    vm.skipped_decommits += 1;
                    true
                }
                _ => false,
            }
        });
        if skip {
            return 0;
        }
    }
    let fail = VM.with(|v| {
        let mut g = v.borrow_mut();
        let Some(vm) = g.as_mut() else { return false };
        if commit {
            vm.commit_calls += 1;
            if vm.fail_commit_at.contains(&vm.commit_calls) {
                vm.failed_commits += 1;
                if vm.keep_calls {
                    vm.calls.push(VmCall::Commit { base: addr as usize, size: len, ok: false });
                }
                return true;
            }
        }
        false
    });
    if fail {
        unsafe { *::libc::__errno_location() = ENOMEM };
        return -1;
    }
    let r = unsafe { ::libc::mprotect(addr, len, prot) };
    VM.with(|v| {
        if let Some(vm) = v.borrow_mut().as_mut() {
            if commit {
                if r == 0 {
                    vm.mark(addr as usize, len, true, "commit");
                }
                if vm.keep_calls {
                    vm.calls.push(VmCall::Commit { base: addr as usize, size: len, ok: r == 0 });
                }
            } else {
                vm.decommits += 1;
                if r == 0 {
                    vm.mark(addr as usize, len, false, "decommit");
                }
                if vm.keep_calls {
                    vm.calls.push(VmCall::Decommit { base: addr as usize, size: len });
                }
            }
        }
    });
    r
}

pub unsafe fn madvise(addr: *mut c_void, len: size_t, advice: c_int) -> c_int {
    if VM.with(|v| v.borrow().as_ref().is_some_and(|vm| vm.decommit_noop)) {
        return 0;
    }
    VM.with(|v| {
        if let Some(vm) = v.borrow_mut().as_mut()
            && vm.keep_calls
        {
            vm.calls.push(VmCall::Advise { base: addr as usize, size: len });
        }
    });
    unsafe { ::libc::madvise(addr, len, advice) }
}

pub unsafe fn munmap(addr: *mut c_void, len: size_t) -> c_int {
    VM.with(|v| {
        if let Some(vm) = v.borrow_mut().as_mut() {
            if let Some(r) = vm.regions.iter_mut().find(|r| !r.released && r.base == addr as usize)
            {
                if r.size != len {
                    vm.bad_calls.push(format!("release of {} bytes, reserved {}", len, r.size));
                }
                r.released = true;
            } else {
                vm.bad_calls.push("release of an unknown reservation".to_string());
            }
            if vm.keep_calls {
                vm.calls.push(VmCall::Release { base: addr as usize, size: len });
            }
        }
    });
    if in_window(addr as usize) {
        // keep the window ours: the range goes back to "reserved, inaccessible" instead of to the OS
        let p = unsafe { ::libc::mmap(addr, len, PROT_NONE, MAP_PRIVATE | MAP_ANONYMOUS | MAP_NORESERVE | MAP_FIXED, -1, 0) };
        return if p == MAP_FAILED { -1 } else { 0 };
    }
    unsafe { ::libc::munmap(addr, len) }
}
