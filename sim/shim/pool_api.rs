// `crate::arena::pool::verif_api` (re-exported as `naijascript::arena::pool_verif`): public
// wrappers over the crate-private pool so the harness can drive it and read its counters.
use super::*;

pub const CLASSES: usize = CLASS_COUNT as usize;

pub fn slot_sizes() -> [u32; CLASSES] {
    SLOT_SIZES
}
pub fn default_slot_counts() -> [u32; CLASSES] {
    SLOT_COUNTS
}
pub fn class_of(n: u32) -> Option<u32> {
    size_class(n)
}

#[derive(Clone, Copy, Debug, PartialEq, Eq)]
pub struct ClassState {
    pub base: usize,
    pub slot_size: u32,
    pub slot_count: u32,
    pub bump: u32,
    pub free: u32,
    pub live: u32,
}

pub struct VPoolSet<'a>(PoolSet<'a>);

impl<'a> VPoolSet<'a> {
    /// Same construction path as the runtime's (`PoolSet::new`), so the slot-count knob applies.
    pub fn new(arena: &'a Arena) -> Self {
        VPoolSet(PoolSet::new(arena))
    }
    pub fn alloc(&self, size: u32) -> NonNull<[u8]> {
        self.0.alloc(size)
    }
    /// # Safety
    /// as `PoolSet::dealloc`
    pub unsafe fn dealloc(&self, ptr: NonNull<u8>, size: u32) {
        unsafe { self.0.dealloc(ptr, size) }
    }
    pub fn contains(&self, ptr: *const u8) -> bool {
        self.0.contains(ptr)
    }
    pub fn alloc_str(&self, s: &str) -> ArenaString<'a> {
        self.0.alloc_str(s)
    }
    pub fn arena_offset(&self) -> usize {
        self.0.arena().offset()
    }
    pub fn class_state(&self, class: usize) -> ClassState {
        let p = &self.0.pools[class];
        ClassState {
            base: p.block.base.as_ptr() as usize,
            slot_size: p.block.slot_size,
            slot_count: p.block.slot_count,
            bump: p.block.bump.get(),
            free: p.free.len(),
            live: p.live_count.get(),
        }
    }
    /// The free list of a class, bottom to top.
    pub fn free_list(&self, class: usize) -> Vec<u32> {
        let p = &self.0.pools[class];
        (0..p.free.len() as usize).map(|i| unsafe { p.free.indices.as_ptr().add(i).read() }).collect()
    }
}
