// `crate::sys::verif_shim::mem`: probes and knobs for the memory manager. All state is
// thread-local and inert unless the harness switches something on.
use ::std::cell::{Cell, RefCell};

#[derive(Clone, Copy, Debug, Default, PartialEq, Eq)]
pub struct Counters {
    /// arena resets that freed at least one byte
    pub arena_resets: u64,
    pub arena_reset_bytes: u64,
    pub pool_deallocs: u64,
    pub pool_reissues: u64,
    pub pool_fallbacks: u64,
    pub scribbled_bytes: u64,
}

::std::thread_local! {
    static COUNTERS: Cell<Counters> = const { Cell::new(Counters {
        arena_resets: 0, arena_reset_bytes: 0, pool_deallocs: 0, pool_reissues: 0,
        pool_fallbacks: 0, scribbled_bytes: 0 }) };
    static SCRIBBLE: Cell<Option<u8>> = const { Cell::new(None) };
    static SLOT_COUNTS: RefCell<Option<[u32; 20]>> = const { RefCell::new(None) };
}

pub fn counters() -> Counters {
    COUNTERS.with(Cell::get)
}
pub fn reset_counters() {
    COUNTERS.with(|c| c.set(Counters::default()));
}
fn bump(f: impl FnOnce(&mut Counters)) {
    COUNTERS.with(|c| {
        let mut v = c.get();
        f(&mut v);
        c.set(v);
    });
}

/// Adversarial reclaimer for builds without debug poisoning: every byte that is handed back
/// (arena reset, pool slot return) is overwritten with `byte` at once. Reclaimed memory has no
/// defined contents, so this is within the allocator's contract; it makes a stale read show.
/// Ignored in debug-assertion builds, whose own 0xDD poison the pool asserts on.
pub fn set_scribble(byte: Option<u8>) {
    SCRIBBLE.with(|s| s.set(byte));
}

/// Per-class slot counts used by the next `PoolSet::new` calls (None = the shipped table).
pub fn set_pool_slot_counts(counts: Option<[u32; 20]>) {
    SLOT_COUNTS.with(|s| *s.borrow_mut() = counts);
}
pub fn pool_slot_counts() -> Option<[u32; 20]> {
    SLOT_COUNTS.with(|s| *s.borrow())
}

pub fn on_arena_reset(base: *mut u8, to: usize, old: usize, commit: usize) {
    if old <= to {
        return;
    }
    bump(|c| {
        c.arena_resets += 1;
        c.arena_reset_bytes += (old - to) as u64;
    });
    if !cfg!(debug_assertions)
        && let Some(b) = SCRIBBLE.with(Cell::get)
    {
        let end = old.min(commit);
        if end > to {
            unsafe { ::std::ptr::write_bytes(base.add(to), b, end - to) };
            bump(|c| c.scribbled_bytes += (end - to) as u64);
        }
    }
}

pub fn on_pool_dealloc(ptr: *mut u8, slot_size: usize) {
    bump(|c| c.pool_deallocs += 1);
    if !cfg!(debug_assertions)
        && let Some(b) = SCRIBBLE.with(Cell::get)
    {
        unsafe { ::std::ptr::write_bytes(ptr, b, slot_size) };
        bump(|c| c.scribbled_bytes += slot_size as u64);
    }
}

pub fn on_pool_reissue() {
    bump(|c| c.pool_reissues += 1);
}

pub fn on_pool_fallback(_size: usize) {
    bump(|c| c.pool_fallbacks += 1);
}
