//! C11 `vmsim`: seeded operation histories against the real bump arena (and the scratch-arena
//! layer on top of it), with a simulated kernel that can fail commits and reservations, checked
//! after every operation against a shadow model of live ranges, byte canaries and a page model.
use std::alloc::{Allocator, Layout};
use std::panic::{AssertUnwindSafe, catch_unwind};
use std::ptr::NonNull;

use naijascript::arena::{self, Arena, ArenaString, ScratchArena};
use naijascript::sys::verif_shim::fake_libc::{self, VmSim};
use serde_json::{Value, json};

use crate::common::*;
use crate::rng::{Rng, fnv};

pub struct C11;

const CHUNK: usize = 64 << 10;
const SCRATCH_CAP: usize = 1 << 20;

#[derive(Clone, Debug)]
struct Blk {
    off: usize,
    len: usize,
    align: usize,
    pat: u8,
}

/// One underlying bump arena as the model sees it.
struct MArena {
    handle: Option<&'static Arena>, // owned arenas; globals are reached through borrows
    owned_box: Option<*mut Arena>,
    base: usize,
    cap: usize,
    live: Vec<Blk>,
    marks: Vec<usize>,
    /// expected bump offset
    off: usize,
    global: bool,
}

enum Obj {
    /// `b` = position in the borrow stack of the scratch borrow it was made through (usize::MAX: owned arena)
    Vec { u: usize, b: usize, v: Vec<u8, &'static Arena>, model: Vec<u8> },
    Str { u: usize, b: usize, s: ArenaString<'static>, model: String },
    Dead,
}

struct Borrow {
    u: usize,
    off_at_borrow: usize,
    /// boxed: objects keep `&Arena` references into the borrow (in debug builds the wrapper arena is
    /// stored inline), so it must not move when the stack of borrows grows
    sa: Box<ScratchArena<'static>>,
}

struct World {
    us: Vec<MArena>,
    objs: Vec<Obj>,
    borrows: Vec<Borrow>,
    stats: Stats,
}

#[derive(Default)]
struct Stats {
    ops: u64,
    clean_failures: u64,
    injected_commit_failures: u64,
    injected_reserve_failures: u64,
    grows_in_place: u64,
    grows_moved: u64,
    resets: u64,
    decommits_effective: u64,
    recommits_after_decommit: u64,
    scratch_borrows: u64,
    scratch_nested_same_arena: u64,
    shrinks: u64,
    deallocs: u64,
    obj_ops: u64,
    decommitted: Vec<usize>,
    commit_moved_on_failure: u64,
    decommit_not_chunk_exact: u64,
}

thread_local! {
    // the two process-global scratch arenas are created once per worker process
    static GLOBALS: std::cell::RefCell<Option<[(usize, usize); 2]>> = const { std::cell::RefCell::new(None) };
}

fn align_up(x: usize, a: usize) -> usize {
    (x + a - 1) & !(a - 1)
}

fn fill(base: usize, b: &Blk) {
    unsafe { std::ptr::write_bytes((base + b.off) as *mut u8, b.pat, b.len) }
}
fn intact(base: usize, b: &Blk, n: usize) -> bool {
    let s = unsafe { std::slice::from_raw_parts((base + b.off) as *const u8, n) };
    s.iter().all(|&x| x == b.pat)
}

type V = Result<(), (String, String)>;
fn bad<T>(class: &str, msg: String) -> Result<T, (String, String)> {
    Err((class.to_string(), msg))
}

impl World {
    /// the handle through which underlying arena `u` may be used right now
    fn handle(&self, u: usize) -> Option<&'static Arena> {
        if let Some(h) = self.us[u].handle {
            return Some(h);
        }
        // newest borrow of u
        self.borrows.iter().rev().find(|b| b.u == u).map(|b| {
            let a: &Arena = &**b.sa;
            // SAFETY: the borrow is boxed (stable address) and outlives every use (objects are dropped before the borrow is popped)
            unsafe { std::mem::transmute::<&Arena, &'static Arena>(a) }
        })
    }
    /// position of the newest borrow of `u` (usize::MAX for owned arenas)
    fn newest_borrow(&self, u: usize) -> usize {
        if self.us[u].handle.is_some() {
            return usize::MAX;
        }
        self.borrows.iter().rposition(|b| b.u == u).unwrap_or(usize::MAX - 1)
    }
    /// lowest offset the newest handle of `u` may touch
    fn floor(&self, u: usize) -> usize {
        self.borrows.iter().rev().find(|b| b.u == u).map_or(0, |b| b.off_at_borrow)
    }
    fn usable(&self) -> Vec<usize> {
        (0..self.us.len()).filter(|u| self.handle(*u).is_some()).collect()
    }

    /// invariants that must hold after every operation
    fn check_all(&self, step: usize, what: &str) -> V {
        for (u, m) in self.us.iter().enumerate() {
            if let Some(h) = self.handle(u) {
                let off = h.offset();
                if off != m.off {
                    return bad("offset-model", format!("step {step} ({what}): arena {u} offset {off}, model {}", m.off));
                }
            }
            for b in &m.live {
                if !intact(m.base, b, b.len) {
                    return bad(
                        "block-clobbered",
                        format!("step {step} ({what}): arena {u} block at offset {} len {} lost its contents", b.off, b.len),
                    );
                }
            }
            if !m.global {
                let ok = fake_libc::with_vm(|vm| vm.is_committed(m.base, m.off)).unwrap_or(true);
                if !ok {
                    return bad("not-committed", format!("step {step} ({what}): arena {u}: bytes below offset {} are not committed", m.off));
                }
                if let Some(Some(msg)) = fake_libc::with_vm(|vm| vm.bad_calls.first().cloned()) {
                    return bad("bad-vm-call", format!("step {step} ({what}): {msg}"));
                }
            }
        }
        for (k, o) in self.objs.iter().enumerate() {
            let (u, ptr, cap, ok) = match o {
                Obj::Vec { u, v, model, .. } => (*u, v.as_ptr() as usize, v.capacity(), v.as_slice() == model.as_slice()),
                Obj::Str { u, s, model, .. } => (*u, s.as_ptr() as usize, s.capacity(), s.as_str() == model.as_str()),
                Obj::Dead => continue,
            };
            if !ok {
                return bad("object-contents", format!("step {step} ({what}): vector/string {k} lost its contents"));
            }
            let m = &self.us[u];
            if cap > 0 && (ptr < m.base || ptr + cap > m.base + m.off) {
                return bad("object-out-of-bounds", format!("step {step} ({what}): vector/string {k} storage outside [base, base+offset)"));
            }
            if cap > 0 {
                for b in &m.live {
                    if b.len > 0 && ptr < m.base + b.off + b.len && m.base + b.off < ptr + cap {
                        return bad("overlap", format!("step {step} ({what}): vector/string {k} overlaps a live block at {}", b.off));
                    }
                }
                for (j, o2) in self.objs.iter().enumerate() {
                    if j == k {
                        continue;
                    }
                    let (u2, p2, c2) = match o2 {
                        Obj::Vec { u, v, .. } => (*u, v.as_ptr() as usize, v.capacity()),
                        Obj::Str { u, s, .. } => (*u, s.as_ptr() as usize, s.capacity()),
                        Obj::Dead => continue,
                    };
                    if u2 == u && c2 > 0 && ptr < p2 + c2 && p2 < ptr + cap {
                        return bad("overlap", format!("step {step} ({what}): vectors/strings {k} and {j} share storage"));
                    }
                }
            }
        }
        Ok(())
    }

    /// everything above `to` in arena `u` is gone
    fn forget_above(&mut self, u: usize, to: usize) {
        let m = &mut self.us[u];
        m.live.retain(|b| b.off + b.len <= to && !(b.len == 0 && b.off > to));
        m.marks.retain(|x| *x <= to);
        let base = m.base;
        for o in &mut self.objs {
            let (ou, ptr, cap) = match o {
                Obj::Vec { u, v, .. } => (*u, v.as_ptr() as usize, v.capacity()),
                Obj::Str { u, s, .. } => (*u, s.as_ptr() as usize, s.capacity()),
                Obj::Dead => continue,
            };
            if ou == u && (cap == 0 || ptr + cap > base + to) {
                // Drop is a no-op for arena memory
                *o = Obj::Dead;
            }
        }
        m.off = to;
    }
}

/// Element counts of the typed slice requests: small, or so large that `count * size_of::<T>()`
/// does not fit a machine word (the byte count would wrap to a small number).
/// (2 000 000 and up: the byte size itself still fits, but adding it to the bump pointer does not.)
fn count32(x: u64) -> usize {
    if x >= 2_000_000 {
        (usize::MAX - 63 - 4 * (x as usize % 1000)) / 4
    } else if x >= 1_000_000 {
        (1usize << 62) + (x as usize % 1000)
    } else {
        x as usize % 5000
    }
}
fn count128(x: u64) -> usize {
    if x >= 2_000_000 {
        (usize::MAX - 63 - 16 * (x as usize % 300)) / 16
    } else if x >= 1_000_000 {
        (1usize << 60) + (x as usize % 300)
    } else {
        x as usize % 300
    }
}

fn sel(n: u64, len: usize) -> usize {
    if len == 0 { 0 } else { (n as usize) % len }
}

/// Executes the history; Err = (violation class, message).
fn run_history(case: &Value, w: &mut World) -> V {
    let ops = case["ops"].as_array().unwrap();
    let fail_ops: Vec<usize> =
        case["fail_commit_at_ops"].as_array().map(|a| a.iter().map(|x| x.as_u64().unwrap() as usize).collect()).unwrap_or_default();
    // systematic sweep: these commit calls (1-based, counted over the whole history) fail
    let sweep: Vec<u64> = case["fail_commit_calls"].as_array().map(|a| a.iter().map(|x| x.as_u64().unwrap()).collect()).unwrap_or_default();
    fake_libc::with_vm(|vm| vm.fail_commit_at = sweep.clone());
    for (step, op) in ops.iter().enumerate() {
        let kind = op[0].as_str().unwrap_or("");
        let g = |k: usize| op[k].as_u64().unwrap_or(0);
        w.stats.ops += 1;
        let usable = w.usable();
        // arm an injected commit failure for this operation
        let armed = fail_ops.contains(&step) && matches!(kind, "alloc" | "grow" | "uninit");
        // per-operation faults are disarmed again; the swept call numbers stay
        fake_libc::with_vm(|vm| vm.fail_commit_at.retain(|c| sweep.contains(c)));
        if armed {
            fake_libc::with_vm(|vm| {
                let next = vm.commit_calls + 1;
                vm.fail_commit_at.push(next);
            });
        }
        let failed_before = fake_libc::with_vm(|vm| vm.failed_commits).unwrap_or(0);
        match kind {
            "alloc" | "uninit" => {
                let u = usable[sel(g(1), usable.len())];
                let h = w.handle(u).unwrap();
                let (size, align, zeroed) = if kind == "alloc" {
                    ((g(2) as usize).min(isize::MAX as usize + 1 - (1usize << g(3).min(18))), 1usize << g(3).min(18), g(4) == 1) // the largest size a Layout of this alignment can have
                } else {
                    match g(2) % 3 {
                        0 => (8, 8, false),                                        // alloc_uninit::<u64>()
                        1 => (count32(g(3)).saturating_mul(4), 4, false),          // alloc_uninit_slice::<u32>(n)
                        _ => (count128(g(3)).saturating_mul(16), 8, false),        // alloc_uninit_slice::<[u64; 2]>(n)
                    }
                };
                let before = w.us[u].off;
                // the first address at or above the bump pointer with the requested alignment
                let beg = align_up(w.us[u].base + before, align) - w.us[u].base;
                let fits = beg.checked_add(size).is_some_and(|e| e <= w.us[u].cap);
                let commit_before = fake_libc::with_vm(|vm| vm.committed_prefix(w.us[u].base)).unwrap_or(0);
                let res: Result<(usize, usize), ()> = if kind == "alloc" {
                    let lay = Layout::from_size_align(size, align).unwrap();
                    let r = if zeroed { h.allocate_zeroed(lay) } else { h.allocate(lay) };
                    r.map(|p| (p.cast::<u8>().as_ptr() as usize, p.len())).map_err(|_| ())
                } else {
                    // these panic (unwinding) when the request cannot be satisfied
                    catch_unwind(AssertUnwindSafe(|| match g(2) % 3 {
                        0 => (std::ptr::from_mut(h.alloc_uninit::<u64>()) as usize, 8),
                        1 => {
                            let s = h.alloc_uninit_slice::<u32>(count32(g(3)));
                            (s.as_mut_ptr() as usize, s.len().saturating_mul(4))
                        }
                        _ => {
                            let s = h.alloc_uninit_slice::<[u64; 2]>(count128(g(3)));
                            (s.as_mut_ptr() as usize, s.len().saturating_mul(16))
                        }
                    }))
                    .map_err(|_| ())
                };
                let injected = fake_libc::with_vm(|vm| vm.failed_commits).unwrap_or(0) > failed_before;
                match res {
                    Ok((ptr, len)) => {
                        let m = &w.us[u];
                        if !fits {
                            return bad("out-of-bounds", format!("step {step}: request of {size} bytes at offset {before} does not fit capacity {} but succeeded", m.cap));
                        }
                        if injected {
                            return bad("failed-commit-ignored", format!("step {step}: the kernel refused the commit but the allocation of {size} bytes succeeded"));
                        }
                        if len < size {
                            return bad("short-block", format!("step {step}: block of {len} bytes for a request of {size}"));
                        }
                        if ptr % align != 0 {
                            return bad("misaligned", format!("step {step}: block at offset {} for alignment {align}", ptr.wrapping_sub(m.base)));
                        }
                        if ptr != m.base + beg {
                            return bad(
                                "placement",
                                format!("step {step}: block at offset {}, expected {beg} (offset before {before}, align {align})", ptr.wrapping_sub(m.base)),
                            );
                        }
                        if !m.global && !fake_libc::with_vm(|vm| vm.is_committed(ptr, size)).unwrap_or(true) {
                            return bad("not-committed", format!("step {step}: block [{beg}, {}) is not in committed pages", beg + size));
                        }
                        if zeroed {
                            let s = unsafe { std::slice::from_raw_parts(ptr as *const u8, size) };
                            if !s.iter().all(|&x| x == 0) {
                                return bad("not-zeroed", format!("step {step}: allocate_zeroed returned non-zero bytes"));
                            }
                        }
                        let commit_after = fake_libc::with_vm(|vm| vm.committed_prefix(m.base)).unwrap_or(0);
                        if !m.global && commit_after > commit_before && w.stats.decommitted.contains(&u) {
                            w.stats.recommits_after_decommit += 1;
                            w.stats.decommitted.retain(|x| *x != u);
                        }
                        let b = Blk { off: beg, len: size, align, pat: (g(5) as u8) | 1 };
                        fill(m.base, &b);
                        let m = &mut w.us[u];
                        m.live.push(b);
                        m.off = beg + size;
                    }
                    Err(()) => {
                        w.stats.clean_failures += 1;
                        if injected {
                            w.stats.injected_commit_failures += 1;
                        }
                        if fits && !injected {
                            return bad("spurious-failure", format!("step {step}: request of {size} bytes (align {align}) at offset {before} fits capacity {} but failed", w.us[u].cap));
                        }
                        // pages committed on the way to a failure are harmless (not part of the statement):
                        // counted only. The dangerous direction - the arena believing in pages the kernel did
                        // not give - shows as `not-committed` at the next allocation.
                        let commit_after = fake_libc::with_vm(|vm| vm.committed_prefix(w.us[u].base)).unwrap_or(0);
                        if !w.us[u].global && commit_after != commit_before {
                            w.stats.commit_moved_on_failure += 1;
                        }
                    }
                }
            }
            "grow" => {
                let u = usable[sel(g(1), usable.len())];
                let h = w.handle(u).unwrap();
                // blocks of an enclosing scratch scope are not the newest handle's to grow
                let floor = w.floor(u);
                let cands: Vec<usize> = (0..w.us[u].live.len()).filter(|k| w.us[u].live[*k].off >= floor).collect();
                if cands.is_empty() {
                    continue;
                }
                let i = cands[sel(g(2), cands.len())];
                let b = w.us[u].live[i].clone();
                let add = g(3) as usize;
                let zeroed = g(4) == 1;
                let before = w.us[u].off;
                let is_tail = b.off + b.len == before;
                let old = Layout::from_size_align(b.len, b.align).unwrap();
                let new = Layout::from_size_align(b.len + add, b.align).unwrap();
                let base = w.us[u].base;
                let ptr0 = unsafe { NonNull::new_unchecked((base + b.off) as *mut u8) };
                let res = unsafe { if zeroed { h.grow_zeroed(ptr0, old, new) } else { h.grow(ptr0, old, new) } };
                let injected = fake_libc::with_vm(|vm| vm.failed_commits).unwrap_or(0) > failed_before;
                let (exp_off, exp_end) = if is_tail {
                    (b.off, before + add)
                } else {
                    let beg = align_up(w.us[u].base + before, b.align) - w.us[u].base;
                    (beg, beg + b.len + add)
                };
                let fits = exp_end <= w.us[u].cap;
                match res {
                    Ok(p) => {
                        let ptr = p.cast::<u8>().as_ptr() as usize;
                        if !fits {
                            return bad("out-of-bounds", format!("step {step}: grow to {} bytes does not fit but succeeded", b.len + add));
                        }
                        if injected {
                            return bad("failed-commit-ignored", format!("step {step}: the kernel refused the commit but grow succeeded"));
                        }
                        if p.len() < b.len + add {
                            return bad("short-block", format!("step {step}: grow returned {} bytes for {}", p.len(), b.len + add));
                        }
                        if ptr != base + exp_off {
                            return bad(
                                "placement",
                                format!("step {step}: grow of {} block put it at offset {}, expected {exp_off}", if is_tail { "the tail" } else { "a non-tail" }, ptr.wrapping_sub(base)),
                            );
                        }
                        let nb = Blk { off: exp_off, len: b.len + add, align: b.align, pat: b.pat };
                        if !intact(base, &nb, b.len) {
                            return bad("grow-lost-contents", format!("step {step}: grow of a {} block of {} bytes lost its contents", if is_tail { "tail" } else { "non-tail" }, b.len));
                        }
                        if zeroed {
                            let s = unsafe { std::slice::from_raw_parts((ptr + b.len) as *const u8, add) };
                            if !s.iter().all(|&x| x == 0) {
                                return bad("not-zeroed", format!("step {step}: grow_zeroed left non-zero bytes"));
                            }
                        }
                        if is_tail {
                            w.stats.grows_in_place += 1;
                        } else {
                            w.stats.grows_moved += 1;
                        }
                        fill(base, &nb);
                        let m = &mut w.us[u];
                        // a moved block's old storage is dead but stays below the offset
                        m.live[i] = nb;
                        m.off = exp_end;
                    }
                    Err(_) => {
                        w.stats.clean_failures += 1;
                        if injected {
                            w.stats.injected_commit_failures += 1;
                        }
                        if fits && !injected {
                            return bad("spurious-failure", format!("step {step}: grow by {add} fits but failed"));
                        }
                    }
                }
            }
            "dealloc" | "obj_drop" => {
                // giving a block back is allowed at any time and must change nothing: arena memory is
                // only reclaimed by a reset ("... since the last reset below it"), and the interpreter keeps
                // zero-copy views into storage whose owner was dropped
                let (u, what) = if kind == "dealloc" {
                    let u = usable[sel(g(1), usable.len())];
                    let h = w.handle(u).unwrap();
                    let floor = w.floor(u);
                    let before = w.us[u].off;
                    let cands: Vec<usize> = (0..w.us[u].live.len()).filter(|k| w.us[u].live[*k].off >= floor).collect();
                    if cands.is_empty() {
                        continue;
                    }
                    // half of the time the most recent block, if there is one
                    let tail = cands.iter().copied().find(|k| w.us[u].live[*k].off + w.us[u].live[*k].len == before && w.us[u].live[*k].len > 0);
                    let i = match tail {
                        Some(t) if g(2) % 2 == 0 => t,
                        _ => cands[sel(g(2), cands.len())],
                    };
                    let b = w.us[u].live.remove(i);
                    let base = w.us[u].base;
                    unsafe { h.deallocate(NonNull::new_unchecked((base + b.off) as *mut u8), Layout::from_size_align(b.len, b.align).unwrap()) };
                    w.stats.deallocs += 1;
                    (u, format!("deallocate of the block at offset {} ({} bytes)", b.off, b.len))
                } else {
                    let alive: Vec<usize> = w.objs.iter().enumerate().filter(|(_, o)| !matches!(o, Obj::Dead)).map(|(k, _)| k).collect();
                    if alive.is_empty() {
                        continue;
                    }
                    let k = alive[sel(g(1), alive.len())];
                    let (u, ob) = match &w.objs[k] {
                        Obj::Vec { u, b, .. } | Obj::Str { u, b, .. } => (*u, *b),
                        Obj::Dead => continue,
                    };
                    if w.handle(u).is_none() || w.newest_borrow(u) != ob {
                        continue;
                    }
                    w.objs[k] = Obj::Dead; // drops the vector / string
                    w.stats.deallocs += 1;
                    (u, "drop of a vector/string".to_string())
                };
                let now = w.handle(u).unwrap().offset();
                if now != w.us[u].off {
                    return bad("offset-model", format!("step {step}: {what} moved the bump pointer from {} to {now}", w.us[u].off));
                }
            }
            "shrink" => {
                // only the most recent block may be shrunk (caller contract)
                let u = usable[sel(g(1), usable.len())];
                let h = w.handle(u).unwrap();
                let before = w.us[u].off;
                let floor = w.floor(u);
                let Some(i) = w.us[u].live.iter().position(|b| b.off + b.len == before && b.len > 0 && b.off >= floor) else { continue };
                let b = w.us[u].live[i].clone();
                let newlen = (g(2) as usize) % (b.len + 1);
                let old = Layout::from_size_align(b.len, b.align).unwrap();
                let new = Layout::from_size_align(newlen, b.align).unwrap();
                let base = w.us[u].base;
                let res = unsafe { h.shrink(NonNull::new_unchecked((base + b.off) as *mut u8), old, new) };
                match res {
                    Ok(p) => {
                        if p.cast::<u8>().as_ptr() as usize != base + b.off || p.len() < newlen {
                            return bad("placement", format!("step {step}: shrink moved or shortened the block"));
                        }
                        w.stats.shrinks += 1;
                        let m = &mut w.us[u];
                        m.live[i].len = newlen;
                        m.off = b.off + newlen;
                        // marks above the new offset no longer denote "an earlier mark"
                        let off = m.off;
                        m.marks.retain(|x| *x <= off);
                    }
                    Err(_) => return bad("spurious-failure", format!("step {step}: shrink failed")),
                }
            }
            "mark" => {
                let u = usable[sel(g(1), usable.len())];
                let off = w.us[u].off;
                w.us[u].marks.push(off);
            }
            "reset" => {
                let u = usable[sel(g(1), usable.len())];
                let h = w.handle(u).unwrap();
                // never below the newest borrow's own watermark
                let floor = w.floor(u);
                let cur = w.us[u].off;
                let marks: Vec<usize> = w.us[u].marks.iter().copied().filter(|m| *m >= floor && *m <= cur).collect();
                if marks.is_empty() {
                    continue;
                }
                let to = marks[sel(g(2), marks.len())];
                unsafe { h.reset(to) };
                w.stats.resets += 1;
                w.forget_above(u, to);
                if g(3) == 1 {
                    h.decommit();
                }
            }
            "decommit" => {
                let u = usable[sel(g(1), usable.len())];
                let h = w.handle(u).unwrap();
                let base = w.us[u].base;
                let before = fake_libc::with_vm(|vm| vm.committed_prefix(base)).unwrap_or(0);
                h.decommit();
                if !w.us[u].global {
                    let after = fake_libc::with_vm(|vm| vm.committed_prefix(base)).unwrap_or(0);
                    // how much a decommit gives back is a matter of footprint, not of the statement; what
                    // must hold - everything below the offset stays committed and intact - is checked after
                    // every operation. The chunk-exact watermark is only counted.
                    let keep = align_up(w.us[u].off, CHUNK);
                    if after != before.min(keep) {
                        w.stats.decommit_not_chunk_exact += 1;
                    }
                    if after < before {
                        w.stats.decommits_effective += 1;
                        if !w.stats.decommitted.contains(&u) {
                            w.stats.decommitted.push(u);
                        }
                    }
                }
            }
            "vec_new" | "str_new" => {
                let u = usable[sel(g(1), usable.len())];
                let h = w.handle(u).unwrap();
                let cap = g(2) as usize % 4096;
                let before = w.us[u].off;
                if before + 2 * cap + 64 > w.us[u].cap {
                    continue; // a failing Vec allocation aborts the process by design
                }
                let b = w.newest_borrow(u);
                if kind == "vec_new" {
                    w.objs.push(Obj::Vec { u, b, v: Vec::with_capacity_in(cap, h), model: vec![] });
                } else {
                    w.objs.push(Obj::Str { u, b, s: ArenaString::with_capacity_in(cap, h), model: String::new() });
                }
                w.us[u].off = h.offset();
                w.stats.obj_ops += 1;
            }
            "vec_push" | "vec_reserve" | "str_push" | "str_repeat" | "str_replace" => {
                let alive: Vec<usize> = w
                    .objs
                    .iter()
                    .enumerate()
                    .filter(|(_, o)| match o {
                        Obj::Vec { .. } => kind.starts_with("vec"),
                        Obj::Str { .. } => kind.starts_with("str"),
                        Obj::Dead => false,
                    })
                    .map(|(k, _)| k)
                    .collect();
                if alive.is_empty() {
                    continue;
                }
                let k = alive[sel(g(1), alive.len())];
                let (u, ob) = match &w.objs[k] {
                    Obj::Vec { u, b, .. } | Obj::Str { u, b, .. } => (*u, *b),
                    Obj::Dead => continue,
                };
                // an object may only be used through the handle it was made with, and that handle
                // must still be the newest borrow of its arena
                let Some(h) = w.handle(u) else { continue };
                if w.newest_borrow(u) != ob {
                    continue;
                }
                let n = g(2) as usize % 3000;
                let curcap = match &w.objs[k] {
                    Obj::Vec { v, .. } => v.capacity(),
                    Obj::Str { s, .. } => s.capacity(),
                    Obj::Dead => 0,
                };
                // worst case the storage is copied to a new block of twice the needed size
                if w.us[u].off + 2 * (curcap + 4 * n) + 64 > w.us[u].cap {
                    continue;
                }
                let chars = ['a', 'é', '€', '😀'];
                match &mut w.objs[k] {
                    Obj::Vec { v, model, .. } => {
                        if kind == "vec_push" {
                            for j in 0..n {
                                let byte = (j as u8) ^ (g(3) as u8);
                                v.push(byte);
                                model.push(byte);
                            }
                        } else {
                            v.reserve(n);
                        }
                    }
                    Obj::Str { s, model, .. } => {
                        let ch = chars[g(3) as usize % 4];
                        match kind {
                            "str_push" => {
                                for _ in 0..n.min(400) {
                                    s.push(ch);
                                    model.push(ch);
                                }
                                s.push_str("-x-");
                                model.push_str("-x-");
                            }
                            "str_repeat" => {
                                s.push_repeat(ch, n);
                                model.extend(std::iter::repeat_n(ch, n));
                            }
                            _ => {
                                // replace a char-boundary range in the middle
                                let idx: Vec<usize> = model.char_indices().map(|(p, _)| p).chain(std::iter::once(model.len())).collect();
                                let a = idx[sel(g(2), idx.len())];
                                let b = idx[sel(g(4), idx.len())];
                                let (a, b) = (a.min(b), a.max(b));
                                let with: String = std::iter::repeat_n(ch, n % 200).collect();
                                s.replace_range(a..b, &with);
                                model.replace_range(a..b, &with);
                            }
                        }
                    }
                    Obj::Dead => {}
                }
                if h.offset() < w.us[u].off {
                    return bad("offset-model", format!("step {step}: {kind} moved the bump pointer back from {} to {}", w.us[u].off, h.offset()));
                }
                w.us[u].off = h.offset();
                w.stats.obj_ops += 1;
            }
            "scratch_push" => {
                if w.borrows.len() >= 6 {
                    continue;
                }
                // conflict: none, or the newest usable handle of some arena
                let conflict = if g(1) == 0 { None } else { Some(usable[sel(g(2), usable.len())]) };
                let g0 = w.us.len() - 2;
                let expect = match conflict {
                    Some(c) if c == g0 => g0 + 1,
                    _ => g0,
                };
                let sa = match conflict {
                    None => arena::scratch_arena(None),
                    Some(c) => arena::scratch_arena(Some(w.handle(c).unwrap())),
                };
                let sa: Box<ScratchArena<'static>> = Box::new(unsafe { std::mem::transmute::<ScratchArena<'_>, ScratchArena<'static>>(sa) });
                // which global arena did we get? allocate nothing: compare identity through contains_ptr
                let a: &Arena = &**sa;
                let got = if a.contains_ptr(w.us[g0].base as *const u8) { g0 } else { g0 + 1 };
                if !a.contains_ptr(w.us[got].base as *const u8) {
                    return bad("scratch-identity", format!("step {step}: scratch arena is neither global arena"));
                }
                if got != expect {
                    return bad(
                        "scratch-flip-flop",
                        format!("step {step}: scratch_arena(conflict = arena {conflict:?}) returned global {} instead of {}", got - g0, expect - g0),
                    );
                }
                if a.offset() != w.us[got].off {
                    return bad("offset-model", format!("step {step}: borrowed scratch arena starts at {}, model {}", a.offset(), w.us[got].off));
                }
                if w.borrows.iter().any(|b| b.u == got) {
                    w.stats.scratch_nested_same_arena += 1;
                }
                w.stats.scratch_borrows += 1;
                w.borrows.push(Borrow { u: got, off_at_borrow: w.us[got].off, sa });
            }
            "scratch_pop" => {
                let Some(b) = w.borrows.pop() else { continue };
                let (u, to) = (b.u, b.off_at_borrow);
                // objects living in the scope go first
                w.forget_above(u, to);
                drop(b);
                // the arena must be back where the borrow found it; observable through the next handle
            }
            _ => {}
        }
        w.check_all(step, kind)?;
    }
    Ok(())
}

fn gen_size(r: &mut Rng, cap: usize) -> u64 {
    let sizes = [0usize, 1, 7, 8, 9, 63, 64, 255, 256, 4095, 4096, 4097, 65535, 65536, 65537, 100_000, 300_000];
    (match r.below(8) {
        0 => r.below(70_000) as usize,
        1 => cap.saturating_sub(r.below(5000) as usize),
        2 => cap + r.below(5000) as usize,
        3 => r.pick(&[1usize << 30, 1 << 40, (isize::MAX as usize) - 8192]),
        _ => r.pick(&sizes),
    }) as u64
}

impl Engine for C11 {
    fn id(&self) -> &'static str {
        "C11"
    }
    fn tag(&self) -> u64 {
        0xC11
    }
    fn profiles(&self, _tier: Tier) -> Vec<&'static str> {
        vec!["simdbg", "simrel"]
    }
    fn runs(&self, tier: Tier, _profile: &str) -> u64 {
        if tier == Tier::Thorough { 1_500_000 } else { 20_000 }
    }

    fn generate(&self, seed: u64, i: u64, tier: Tier) -> Value {
        // one case in eight belongs to a systematic sweep: 32 consecutive sweep cases share one base
        // history and fail its 1st, 2nd, ... 32nd commit call in turn
        let (mut r, sweep_call) = if i % 8 == 7 {
            (Rng::stream(seed, self.tag() ^ 0x5ee9, i / 256), Some((i % 256) / 8 + 1))
        } else {
            (Rng::stream(seed, self.tag(), i), None)
        };
        let narenas = r.usize(1, 2);
        let caps: Vec<usize> = (0..narenas).map(|_| r.pick(&[1usize, 64 << 10, 128 << 10, 256 << 10, 1 << 20, 65_537, 100 << 10, 200_000, 1_000_001])).collect();
        let maxcap = *caps.iter().max().unwrap();
        let nops = r.usize(1, if tier == Tier::Thorough { 200 } else { 120 });
        let with_scratch = r.chance(40);
        let with_objs = r.chance(50);
        let mut ops = vec![];
        for _ in 0..nops {
            let c = r.below(100);
            let a = r.below(8);
            let op = if c < 38 {
                json!(["alloc", a, gen_size(&mut r, maxcap), if r.chance(4) { r.range(13, 18) } else { r.below(13).min(if r.chance(80) { 7 } else { 12 }) }, u64::from(r.chance(20)), r.next() & 0xff])
            } else if c < 43 {
                json!(["uninit", a, r.below(3), if r.chance(8) { 1_000_000 + r.below(2_000_000) } else { r.below(6000) }])
            } else if c < 58 {
                json!(["grow", a, r.below(64), r.pick(&[0u64, 1, 8, 100, 5000, 65536, 70000, 400_000]), u64::from(r.chance(25))])
            } else if c < 62 {
                json!(["shrink", a, r.below(100_000)])
            } else if c < 70 {
                json!(["mark", a])
            } else if c < 80 {
                json!(["reset", a, r.below(16), u64::from(r.chance(33))])
            } else if c < 83 {
                json!(["decommit", a])
            } else if c < 84 {
                if r.chance(70) { json!(["dealloc", a, r.below(16)]) } else { json!(["obj_drop", r.below(8)]) }
            } else if c < 92 && with_objs {
                match r.below(7) {
                    0 => json!(["vec_new", a, r.below(3000)]),
                    1 => json!(["str_new", a, r.below(3000)]),
                    2 => json!(["vec_push", r.below(8), r.below(3000), r.below(256)]),
                    3 => json!(["vec_reserve", r.below(8), r.below(3000)]),
                    4 => json!(["str_push", r.below(8), r.below(400), r.below(4)]),
                    5 => json!(["str_repeat", r.below(8), r.below(2500), r.below(4)]),
                    _ => json!(["str_replace", r.below(8), r.below(300), r.below(4), r.below(300)]),
                }
            } else if c < 97 && with_scratch {
                if r.chance(60) { json!(["scratch_push", r.below(3), r.below(8)]) } else { json!(["scratch_pop"]) }
            } else {
                json!(["mark", a])
            };
            ops.push(op);
        }
        let mut fail_ops = vec![];
        if r.chance(35) {
            for _ in 0..r.usize(1, 4) {
                fail_ops.push(r.usize(0, nops.saturating_sub(1)));
            }
        }
        let mut fail_reserve = vec![];
        if r.chance(5) {
            fail_reserve.push(r.range(1, narenas as u64));
        }
        // the kernel may hand out any page-aligned address: offsets (in pages) from a 1 MiB boundary
        let base_pages: Vec<u64> = (0..narenas).map(|_| r.pick(&[0u64, 0, 1, 2, 3, 7, 16, 17, 64, 255])).collect();
        let mut case = json!({"caps": caps, "ops": ops, "fail_commit_at_ops": fail_ops, "fail_reserve_at": fail_reserve, "base_pages": base_pages});
        if let Some(k) = sweep_call {
            case["fail_commit_at_ops"] = json!([]);
            case["fail_reserve_at"] = json!([]);
            case["fail_commit_calls"] = json!([k]);
        }
        case
    }

    fn execute(&self, case: &Value) -> RunResult {
        let mut res = RunResult::new();
        res.trace_hash = fnv(0, &serde_json::to_vec(case).unwrap());
        // the two process-global scratch arenas: created on the first run of this process,
        // re-initialised (offsets back to 0) on every later one
        let first = GLOBALS.with(|g| g.borrow().is_none());
        if first {
            // the globals live at the bottom of the simulated kernel's window for the life of the process
            fake_libc::install_vm(VmSim { controlled: true, ..VmSim::default() });
            arena::init(SCRATCH_CAP).expect("scratch init");
            let vm = fake_libc::take_vm().unwrap();
            fake_libc::raise_window_floor(vm.cursor);
            let g: Vec<(usize, usize)> = vm.regions.iter().map(|r| (r.base, r.size)).collect();
            if g.len() != 2 {
                return res.violation("harness", format!("init reserved {} regions", g.len()));
            }
            GLOBALS.with(|c| *c.borrow_mut() = Some([g[0], g[1]]));
        } else {
            arena::init(SCRATCH_CAP).expect("scratch re-init");
        }
        let globals = GLOBALS.with(|g| g.borrow().unwrap());

        let fail_reserve: Vec<u64> =
            case["fail_reserve_at"].as_array().map(|a| a.iter().map(|x| x.as_u64().unwrap()).collect()).unwrap_or_default();
        // the global arenas' reservations are known to the kernel model (so that calls on them are
        // legal) but their page state is not tracked across runs
        let global_regions = globals
            .iter()
            .map(|(base, size)| fake_libc::Reservation {
                base: *base,
                size: *size,
                committed: vec![false; size.div_ceil(fake_libc::PAGE)],
                released: false,
            })
            .collect();
        // where the kernel puts each reservation is part of the scenario: page offsets from a 1 MiB boundary
        let base_pages: Vec<usize> = case["base_pages"].as_array().map(|a| a.iter().map(|x| x.as_u64().unwrap() as usize).collect()).unwrap_or_default();
        fake_libc::install_vm(VmSim {
            fail_reserve_at: fail_reserve,
            regions: global_regions,
            controlled: true,
            base_page_offsets: base_pages,
            ..VmSim::default()
        });

        let mut w = World { us: vec![], objs: vec![], borrows: vec![], stats: Stats::default() };
        let mut verdict: V = Ok(());
        for (k, c) in case["caps"].as_array().unwrap().iter().enumerate() {
            let want = c.as_u64().unwrap() as usize;
            let before = fake_libc::with_vm(|vm| (vm.regions.len(), vm.failed_reserves)).unwrap();
            match Arena::new(want) {
                Ok(a) => {
                    let (n, _) = fake_libc::with_vm(|vm| (vm.regions.len(), vm.failed_reserves)).unwrap();
                    if n != before.0 + 1 {
                        verdict = bad("reserve", format!("arena {k}: Arena::new made {} reservations", n - before.0));
                        break;
                    }
                    let (base, size) = fake_libc::with_vm(|vm| (vm.regions[n - 1].base, vm.regions[n - 1].size)).unwrap();
                    // (how far the reservation is rounded up is the arena's business; the model takes the
                    // real reservation as the bound every block must respect)
                    if size < want {
                        verdict = bad("reserve", format!("arena {k}: reservation of {size} bytes for capacity {want}"));
                        break;
                    }
                    let p = Box::into_raw(Box::new(a));
                    let h: &'static Arena = unsafe { &*p };
                    w.us.push(MArena { handle: Some(h), owned_box: Some(p), base, cap: size, live: vec![], marks: vec![0], off: 0, global: false });
                }
                Err(_) => {
                    let (_, failed) = fake_libc::with_vm(|vm| (vm.regions.len(), vm.failed_reserves)).unwrap();
                    if failed == before.1 {
                        verdict = bad("spurious-failure", format!("arena {k}: Arena::new({want}) failed without an injected fault"));
                        break;
                    }
                    w.stats.injected_reserve_failures += 1;
                    w.stats.clean_failures += 1;
                }
            }
        }
        for (base, size) in globals {
            w.us.push(MArena { handle: None, owned_box: None, base, cap: size, live: vec![], marks: vec![0], off: 0, global: true });
        }
        if verdict.is_ok() && w.us.len() > 2 {
            verdict = run_history(case, &mut w);
        }
        // tear down: borrows newest first (each with the objects of its scope), then the rest
        while let Some(b) = w.borrows.pop() {
            let (u, to) = (b.u, b.off_at_borrow);
            w.forget_above(u, to);
            drop(b);
        }
        w.objs.clear();
        let mut released_ok = true;
        for m in &w.us {
            if let Some(p) = m.owned_box {
                drop(unsafe { Box::from_raw(p) });
                let rel = fake_libc::with_vm(|vm| vm.regions.iter().any(|r| r.base == m.base && r.released)).unwrap_or(true);
                released_ok &= rel;
            }
        }
        let vm = fake_libc::take_vm().unwrap();
        if verdict.is_ok() && !released_ok {
            verdict = bad("leak", "dropping an arena did not release its reservation".into());
        }
        if verdict.is_ok()
            && let Some(m) = vm.bad_calls.first()
        {
            verdict = bad("bad-vm-call", m.clone());
        }
        let s = &w.stats;
        res.count("operations", s.ops);
        res.count("requests_that_failed_cleanly", s.clean_failures);
        res.count("fault_commit_refused", s.injected_commit_failures);
        res.count("cases_in_systematic_commit_failure_sweep", u64::from(case["fail_commit_calls"].is_array()));
        res.count("fault_reserve_refused", s.injected_reserve_failures);
        res.count("grows_in_place", s.grows_in_place);
        res.count("grows_moved_non_tail", s.grows_moved);
        res.count("shrinks", s.shrinks);
        res.count("deallocations_and_object_drops", s.deallocs);
        res.count("resets", s.resets);
        res.count("decommits_that_released_pages", s.decommits_effective);
        res.count("probe_allocation_recommitted_after_decommit", s.recommits_after_decommit);
        res.count("scratch_borrows", s.scratch_borrows);
        res.count("probe_nested_borrow_of_same_global_arena", s.scratch_nested_same_arena);
        res.count("vec_and_string_operations", s.obj_ops);
        res.count("info_failed_requests_that_still_committed_pages", s.commit_moved_on_failure);
        res.count("info_decommits_not_exact_to_the_chunk", s.decommit_not_chunk_exact);
        res.count("kernel_commit_calls", vm.commit_calls);
        res.count("kernel_decommit_calls", vm.decommits);
        res.nontrivial = s.grows_moved + s.resets + s.injected_commit_failures + s.decommits_effective + s.scratch_borrows > 0;
        match verdict {
            Ok(()) => res,
            Err((class, msg)) => res.violation(&class, msg),
        }
    }

    fn shrink(&self, case: &Value) -> Vec<Value> {
        let mut v = vec![];
        let set = |k: &str, x: Value| {
            let mut c = case.clone();
            c[k] = x;
            c
        };
        let ops = case["ops"].as_array().unwrap();
        let n = ops.len();
        // the failing step is the last one that matters: cut the tail first, then chunks, then singles
        let mut size = n / 2;
        while size >= 1 {
            let mut start = 0;
            while start < n {
                let mut o = ops.clone();
                o.drain(start..(start + size).min(n));
                // fault indices refer to op positions: shift them
                let mut c = set("ops", json!(o));
                let f: Vec<usize> = case["fail_commit_at_ops"]
                    .as_array()
                    .unwrap()
                    .iter()
                    .map(|x| x.as_u64().unwrap() as usize)
                    .filter(|k| *k < start || *k >= start + size)
                    .map(|k| if k >= start + size { k - size } else { k })
                    .collect();
                c["fail_commit_at_ops"] = json!(f);
                v.push(c);
                start += size;
                if v.len() > 300 {
                    break;
                }
            }
            if size == 1 || v.len() > 300 {
                break;
            }
            size /= 2;
        }
        if !case["fail_commit_at_ops"].as_array().unwrap().is_empty() {
            v.push(set("fail_commit_at_ops", json!([])));
        }
        if let Some(k) = case["fail_commit_calls"][0].as_u64()
            && k > 1
        {
            v.push(set("fail_commit_calls", json!([k - 1])));
        }
        if !case["fail_reserve_at"].as_array().unwrap().is_empty() {
            v.push(set("fail_reserve_at", json!([])));
        }
        let caps = case["caps"].as_array().unwrap();
        if caps.len() > 1 {
            v.push(set("caps", json!([caps[0]])));
        }
        // smaller numbers inside ops
        for (i, op) in ops.iter().enumerate().take(40) {
            for k in 2..op.as_array().map_or(0, Vec::len) {
                if let Some(x) = op[k].as_u64()
                    && x > 1
                {
                    for nx in [0, x / 2, x - 1] {
                        let mut o = ops.clone();
                        o[i][k] = json!(nx);
                        v.push(set("ops", json!(o)));
                    }
                }
            }
        }
        v
    }

    fn classify_crash(&self, how: &str, tail: &str, _stage: &str) -> Verdict {
        if tail.contains("memory allocation of") {
            // a Vec/String growth that could not be satisfied aborts by design
            return Verdict::Discard("vector-growth-abort".into());
        }
        Verdict::Violation { class: "crash".into(), msg: format!("worker died in an arena operation ({how}): {}", last_lines(tail, 3)) }
    }

    fn sample(&self, case: &Value) -> Value {
        let mut c = case.clone();
        if let Some(o) = c["ops"].as_array()
            && o.len() > 14
        {
            let n = o.len();
            c["ops"] = json!({"first": o[..14], "count": n});
        }
        c
    }

    fn rule(&self) -> String {
        "case = history of 1-200 operations over one or two arenas (capacities 64 KiB-1 MiB) plus the two global scratch arenas: \
         allocate/allocate_zeroed (sizes 0,1,7,8,...,65535,65536,65537, near capacity, over capacity, 2^30, 2^40, isize::MAX-8192; \
         alignments 1-4096), alloc_uninit/alloc_uninit_slice, grow/grow_zeroed of tail and non-tail blocks, shrink of the tail, \
         mark/reset to any earlier mark, decommit, Vec and ArenaString growth (push, reserve, push_repeat, replace_range), nested \
         scratch_arena(None|Some(conflict)) borrows and releases, init() re-initialisation; faults: the simulated kernel refuses the \
         commit (mprotect) issued by a chosen operation, or a reservation (mmap). After every operation: exact placement \
         (base + align_up(offset)), length, alignment, bounds, committed pages per the kernel model, canary bytes of every live block, \
         contents of every vector/string, offset model, clean failure (offset and commit watermark unchanged), decommit watermark, \
         scratch flip/flop identity and offset restoration. Non-trivial = a non-tail grow, reset, injected failure, effective decommit \
         or scratch borrow happened. Distinct = hash of the history."
            .into()
    }
    fn assumptions(&self) -> Vec<String> {
        vec![
            "real pages: the simulated kernel only decides which mmap/mprotect calls fail and mirrors page state; everything else is forwarded to the real kernel".into(),
            "caller-contract violations (shrink of a non-tail block, use of an older scratch borrow, reset below a borrow's watermark) are not issued".into(),
            "Vec/String growth is only issued when it must fit (a failing growth aborts the process by design)".into(),
        ]
    }
    fn components(&self) -> Value {
        json!({"real": ["src/arena/bump.rs", "src/arena/debug.rs (simdbg)", "src/arena/scratch.rs", "src/arena/string.rs", "src/sys/unix.rs UnixVirtualMemory", "kernel pages"],
               "stub": ["the kernel's decision to fail mmap/mprotect (fake_libc)"]})
    }
}
