//! C12 `poolsim`: histories of allocate / release by several owners against the real string
//! pool (through the cfg-gated wrappers), with class exhaustion and a full backing arena as the
//! injected resource faults, checked after every operation against a multiset/interval model.
use std::panic::{AssertUnwindSafe, catch_unwind};
use std::ptr::NonNull;

use naijascript::arena::Arena;
use naijascript::arena::pool_verif as pv;
use naijascript::sys::verif_shim::mem;
use serde_json::{Value, json};

use crate::common::*;
use crate::rng::{Rng, fnv};

pub struct C12;

#[derive(Clone, Debug)]
struct Buf {
    ptr: usize,
    len: usize,
    req: u32,
    pat: u8,
    /// Some((class, slot)) when pooled
    slot: Option<(usize, u32)>,
    owner: usize,
    /// content model for alloc_str buffers
    text: Option<Vec<u8>>,
}

type V = Result<(), (String, String)>;
fn bad<T>(class: &str, msg: String) -> Result<T, (String, String)> {
    Err((class.to_string(), msg))
}

#[derive(Default)]
struct Stats {
    ops: u64,
    allocs: u64,
    frees: u64,
    reissued: u64,
    exhaustion_fallbacks: u64,
    oversize_fallbacks: u64,
    arena_full: u64,
    probes: u64,
    str_allocs: u64,
    noop_frees: u64,
    huge_strings: u64,
}

fn run_history(case: &Value, st: &mut Stats) -> V {
    let counts: [u32; 20] = {
        let a = case["counts"].as_array().unwrap();
        let mut c = [1u32; 20];
        for (i, x) in a.iter().enumerate().take(20) {
            c[i] = x.as_u64().unwrap().max(1) as u32;
        }
        c
    };
    let sizes = pv::slot_sizes();
    let needed: usize = (0..20).map(|i| sizes[i] as usize * counts[i] as usize + 4 * counts[i] as usize + 16).sum();
    let slack = case["arena_slack"].as_u64().unwrap_or(8 << 20) as usize;
    let arena = Arena::new(needed + slack).map_err(|e| ("harness".to_string(), format!("arena: {e}")))?;
    mem::set_pool_slot_counts(Some(counts));
    let ps = pv::VPoolSet::new(&arena);
    mem::set_pool_slot_counts(None);
    let blocks: Vec<pv::ClassState> = (0..pv::CLASSES).map(|c| ps.class_state(c)).collect();
    for (c, b) in blocks.iter().enumerate() {
        if b.slot_count != counts[c] || b.slot_size != sizes[c] || b.live != 0 || b.free != 0 || b.bump != 0 {
            return bad("init", format!("class {c} starts as {b:?}, expected {} slots of {}", counts[c], sizes[c]));
        }
        for (d, b2) in blocks.iter().enumerate() {
            if d != c {
                let (a0, a1) = (b.base, b.base + b.slot_size as usize * b.slot_count as usize);
                let (c0, c1) = (b2.base, b2.base + b2.slot_size as usize * b2.slot_count as usize);
                if a0 < c1 && c0 < a1 {
                    return bad("init", format!("class blocks {c} and {d} overlap"));
                }
            }
        }
    }
    let block_of = |addr: usize| -> Option<usize> {
        blocks.iter().position(|b| addr >= b.base && addr < b.base + b.slot_size as usize * b.slot_count as usize)
    };
    let mut live: Vec<Buf> = vec![];
    let mut free_model: Vec<Vec<u32>> = vec![vec![]; pv::CLASSES];
    let mut ever_issued: Vec<Vec<bool>> = counts.iter().map(|c| vec![false; *c as usize]).collect();
    let mut fallback_ranges: Vec<(usize, usize)> = vec![];

    // bulk operations are expanded into single ones; the (costly) whole-pool invariants then run
    // only after the last of them
    let mut flat: Vec<(Value, bool)> = vec![];
    for op in case["ops"].as_array().unwrap() {
        match op[0].as_str().unwrap_or("") {
            "alloc_many" => {
                let n = op[3].as_u64().unwrap_or(0);
                for k in 0..n {
                    flat.push((json!(["alloc", op[1], op[2], 0, (k * 7 + 1) & 0xff]), k + 1 == n || k % 1024 == 1023));
                }
            }
            "free_all" => {
                let n = op[3].as_u64().unwrap_or(0);
                for k in 0..n {
                    flat.push((json!(["free", op[1], op[2], k]), k + 1 == n || k % 1024 == 1023));
                }
            }
            _ => flat.push((op.clone(), true)),
        }
    }
    for (step, (op, check_after)) in flat.iter().enumerate() {
        st.ops += 1;
        let kind = op[0].as_str().unwrap_or("");
        let g = |k: usize| op[k].as_u64().unwrap_or(0);
        match kind {
            "alloc" | "str" => {
                let owner = g(1) as usize;
                let size = g(2) as u32;
                let before_off = ps.arena_offset();
                let class = pv::class_of(size);
                let text: Option<Vec<u8>> = if kind == "str" {
                    // valid UTF-8 of exactly `size` bytes
                    let mut t = String::new();
                    let chars = ['a', 'é', '€', '😀'];
                    let mut k = g(3) as usize;
                    while t.len() + chars[k % 4].len_utf8() <= size as usize {
                        t.push(chars[k % 4]);
                        k += 1;
                    }
                    while t.len() < size as usize {
                        t.push('_');
                    }
                    Some(t.into_bytes())
                } else {
                    None
                };
                let r = catch_unwind(AssertUnwindSafe(|| {
                    if let Some(t) = &text {
                        let s = ps.alloc_str(std::str::from_utf8(t).unwrap());
                        let (p, l, c) = (s.as_ptr() as usize, s.len(), s.capacity());
                        std::mem::forget(s);
                        (p, l, c)
                    } else {
                        let p = ps.alloc(size);
                        (p.cast::<u8>().as_ptr() as usize, p.len(), p.len())
                    }
                }));
                let (ptr, len, cap) = match r {
                    Ok(x) => x,
                    Err(e) => {
                        let m = e.downcast_ref::<String>().cloned().or_else(|| e.downcast_ref::<&str>().map(|s| (*s).to_string())).unwrap_or_default();
                        // only legal when the request had to fall back and the backing arena is full
                        let exhausted = class.is_none_or(|c| {
                            let s = ps.class_state(c as usize);
                            s.free == 0 && s.bump == s.slot_count
                        });
                        if m.contains("arena capacity exceeded") && exhausted {
                            st.arena_full += 1;
                            continue;
                        }
                        return bad("alloc-panicked", format!("step {step}: alloc({size}) panicked: {m}"));
                    }
                };
                st.allocs += 1;
                if kind == "str" {
                    st.str_allocs += 1;
                    if len != size as usize || cap != size as usize {
                        return bad("str-shape", format!("step {step}: alloc_str of {size} bytes has len {len} capacity {cap}"));
                    }
                }
                if len < size as usize {
                    return bad("short-buffer", format!("step {step}: {len} bytes for a request of {size}"));
                }
                let pooled = ps.contains(ptr as *const u8);
                let in_block = block_of(ptr);
                if pooled != in_block.is_some() {
                    return bad("ownership-test", format!("step {step}: contains() says {pooled} for a buffer that is {} a class block", if in_block.is_some() { "inside" } else { "outside" }));
                }
                let mut slot = None;
                match (class, in_block) {
                    (Some(c), Some(bc)) => {
                        let c = c as usize;
                        let b = &blocks[c];
                        if bc != c {
                            return bad("wrong-class", format!("step {step}: request of {size} bytes served from class {bc} (slot {}), expected class {c} (slot {})", blocks[bc].slot_size, b.slot_size));
                        }
                        let o = ptr - b.base;
                        if o % b.slot_size as usize != 0 {
                            return bad("slot-boundary", format!("step {step}: buffer at +{o} in class {c} is not on a slot boundary"));
                        }
                        // (the reported length only has to cover the request, checked above; whether a
                        // pooled allocation touches the arena is no part of the statement)
                        let idx = (o / b.slot_size as usize) as u32;
                        if let Some(p) = free_model[c].iter().position(|x| *x == idx) {
                            free_model[c].remove(p);
                            st.reissued += 1;
                        } else if ever_issued[c][idx as usize] {
                            return bad("double-issue", format!("step {step}: slot {idx} of class {c} handed out although it was never returned"));
                        }
                        ever_issued[c][idx as usize] = true;
                        slot = Some((c, idx));
                    }
                    (Some(c), None) => {
                        let s = ps.class_state(c as usize);
                        if !(s.free == 0 && s.bump == s.slot_count && s.live == s.slot_count) {
                            return bad("early-fallback", format!("step {step}: request of {size} fell back to the arena while class {c} is not exhausted: {s:?}"));
                        }
                        st.exhaustion_fallbacks += 1;
                    }
                    (None, Some(bc)) => {
                        return bad("oversize-pooled", format!("step {step}: oversize request of {size} bytes served from class {bc}"));
                    }
                    (None, None) => st.oversize_fallbacks += 1,
                }
                let extent = if slot.is_some() { blocks[slot.unwrap().0].slot_size as usize } else { len };
                if slot.is_none() {
                    // fresh arena memory: outside every block, never handed out before, arena advanced
                    if (0..pv::CLASSES).any(|c| {
                        let b = &blocks[c];
                        ptr < b.base + b.slot_size as usize * b.slot_count as usize && b.base < ptr + extent.max(1)
                    }) {
                        return bad("fallback-inside-block", format!("step {step}: fallback buffer overlaps a class block"));
                    }
                    for &(a, b) in &fallback_ranges {
                        if extent > 0 && ptr < b && a < ptr + extent {
                            return bad("fallback-recycled", format!("step {step}: arena-fallback memory handed out twice"));
                        }
                    }
                    if ps.arena_offset() < before_off + size as usize {
                        return bad("fallback-not-fresh", format!("step {step}: fallback of {size} bytes advanced the arena by {}", ps.arena_offset() - before_off));
                    }
                    fallback_ranges.push((ptr, ptr + extent));
                }
                for l in &live {
                    let le = l.slot.map_or(l.len, |(c, _)| blocks[c].slot_size as usize);
                    if extent > 0 && le > 0 && ptr < l.ptr + le && l.ptr < ptr + extent {
                        return bad("overlap", format!("step {step}: new buffer overlaps a live buffer of owner {}", l.owner));
                    }
                }
                let pat = (g(4) as u8) | 1;
                if let Some(t) = &text {
                    let got = unsafe { std::slice::from_raw_parts(ptr as *const u8, len) };
                    if got != t.as_slice() {
                        return bad("str-contents", format!("step {step}: alloc_str did not copy the text"));
                    }
                } else {
                    unsafe { std::ptr::write_bytes(ptr as *mut u8, pat, len) };
                }
                live.push(Buf { ptr, len, req: size, pat, slot, owner, text });
            }
            "free" => {
                let owner = g(1) as usize;
                let mine: Vec<usize> = live.iter().enumerate().filter(|(_, b)| b.owner == owner).map(|(i, _)| i).collect();
                if mine.is_empty() {
                    continue;
                }
                let i = match g(2) % 3 {
                    0 => *mine.last().unwrap(),
                    1 => mine[0],
                    _ => mine[(g(3) as usize) % mine.len()],
                };
                let b = live.remove(i);
                let before: Vec<pv::ClassState> = (0..pv::CLASSES).map(|c| ps.class_state(c)).collect();
                // the runtime releases strings with their capacity, which equals the requested size
                unsafe { ps.dealloc(NonNull::new_unchecked(b.ptr as *mut u8), b.req) };
                st.frees += 1;
                match b.slot {
                    Some((c, idx)) => {
                        // it must be back in the class it came from; where in that class's free list is
                        // the pool's business
                        let fl = ps.free_list(c);
                        if !fl.contains(&idx) {
                            return bad("wrong-class-release", format!("step {step}: slot {idx} released to class {c} is not on that class's free list"));
                        }
                        for d in 0..pv::CLASSES {
                            let now = ps.class_state(d);
                            let want_free = before[d].free + u32::from(d == c);
                            let want_live = before[d].live - u32::from(d == c);
                            if now.free != want_free || now.live != want_live || now.bump != before[d].bump {
                                return bad("wrong-class-release", format!("step {step}: releasing a slot of class {c} changed class {d}: {:?} -> {now:?}", before[d]));
                            }
                        }
                        free_model[c].push(idx);
                    }
                    None => {
                        st.noop_frees += 1;
                        for d in 0..pv::CLASSES {
                            if ps.class_state(d) != before[d] {
                                return bad("fallback-recycled", format!("step {step}: releasing an arena-fallback buffer changed class {d}"));
                            }
                        }
                    }
                }
            }
            "huge_str" => {
                // a string of 4 GiB and a little: its length does not fit 32 bits. The text is a read-only
                // mapping of zero pages (NUL characters), so it costs no memory. It cannot fit the backing
                // arena: the only clean outcome is the arena's own capacity failure, with no slot taken.
                let len = (1usize << 32) + g(1) as usize;
                let text = zero_text(len);
                let before: Vec<pv::ClassState> = (0..pv::CLASSES).map(|c| ps.class_state(c)).collect();
                let r = catch_unwind(AssertUnwindSafe(|| {
                    let s = ps.alloc_str(text);
                    let x = (s.len(), s.capacity());
                    std::mem::forget(s);
                    x
                }));
                st.huge_strings += 1;
                match r {
                    Ok((l, c)) => {
                        return bad("short-buffer", format!("step {step}: alloc_str of {len} bytes succeeded on a small arena (len {l}, capacity {c})"));
                    }
                    Err(e) => {
                        let m = e.downcast_ref::<String>().cloned().or_else(|| e.downcast_ref::<&str>().map(|s| (*s).to_string())).unwrap_or_default();
                        if !m.contains("arena capacity exceeded") {
                            return bad("alloc-panicked", format!("step {step}: alloc_str of {len} bytes panicked: {m}"));
                        }
                        let after: Vec<pv::ClassState> = (0..pv::CLASSES).map(|c| ps.class_state(c)).collect();
                        if after != before {
                            return bad("conservation", format!("step {step}: a failed alloc_str of {len} bytes changed a class's counters"));
                        }
                        st.arena_full += 1;
                    }
                }
            }
            "probe" => {
                st.probes += 1;
                for c in 0..pv::CLASSES {
                    let b = &blocks[c];
                    let (lo, hi) = (b.base, b.base + b.slot_size as usize * b.slot_count as usize);
                    let k = (g(1) as usize) % b.slot_count as usize;
                    for addr in [lo, hi - 1, lo + 3.min(hi - lo - 1), lo + k * b.slot_size as usize, lo + k * b.slot_size as usize + b.slot_size as usize - 1] {
                        if !ps.contains(addr as *const u8) {
                            return bad("ownership-test", format!("step {step}: contains() is false for an address inside class {c}'s block"));
                        }
                    }
                    for addr in [lo.wrapping_sub(1), hi] {
                        if ps.contains(addr as *const u8) != block_of(addr).is_some() {
                            return bad("ownership-test", format!("step {step}: contains() is wrong at the edge of class {c}'s block"));
                        }
                    }
                }
                for &(a, b) in &fallback_ranges {
                    if ps.contains(a as *const u8) || (b > a && ps.contains((b - 1) as *const u8)) {
                        return bad("ownership-test", format!("step {step}: contains() is true for arena-fallback memory"));
                    }
                }
                let off = ps.arena_offset();
                if ps.contains((blocks[0].base.wrapping_add(off).wrapping_add(1 << 30)) as *const u8) {
                    return bad("ownership-test", format!("step {step}: contains() is true far outside"));
                }
            }
            _ => {}
        }
        // invariants after every operation
        if !*check_after {
            continue;
        }
        for l in &live {
            let got = unsafe { std::slice::from_raw_parts(l.ptr as *const u8, l.len) };
            let ok = match &l.text {
                Some(t) => got == t.as_slice(),
                None => got.iter().all(|x| *x == l.pat),
            };
            if !ok {
                return bad("buffer-clobbered", format!("step {step} ({kind}): a live buffer of owner {} ({} bytes) lost its contents", l.owner, l.len));
            }
        }
        for c in 0..pv::CLASSES {
            let s = ps.class_state(c);
            if s.live + s.free + (s.slot_count - s.bump) != s.slot_count {
                return bad("conservation", format!("step {step} ({kind}): class {c}: live {} + free {} + never-used {} != {}", s.live, s.free, s.slot_count - s.bump, s.slot_count));
            }
            let model_live = live.iter().filter(|b| b.slot.is_some_and(|(k, _)| k == c)).count() as u32;
            if model_live != s.live {
                return bad("conservation", format!("step {step} ({kind}): class {c}: pool counts {} live buffers, {} are live", s.live, model_live));
            }
            if s.free as usize != free_model[c].len() {
                return bad("conservation", format!("step {step} ({kind}): class {c}: {} free slots, model {}", s.free, free_model[c].len()));
            }
            let mut fl = ps.free_list(c);
            fl.sort_unstable();
            let mut fm = free_model[c].clone();
            fm.sort_unstable();
            if fl != fm {
                return bad("conservation", format!("step {step} ({kind}): class {c}: free list {fl:?} differs from the slots that were returned {fm:?}"));
            }
        }
    }
    Ok(())
}

impl Engine for C12 {
    fn id(&self) -> &'static str {
        "C12"
    }
    fn tag(&self) -> u64 {
        0xC12
    }
    fn profiles(&self, _tier: Tier) -> Vec<&'static str> {
        vec!["simdbg", "simrel"]
    }
    fn runs(&self, tier: Tier, _profile: &str) -> u64 {
        if tier == Tier::Thorough { 150_000 } else { 8_000 }
    }

    fn generate(&self, seed: u64, i: u64, tier: Tier) -> Value {
        let mut r = Rng::stream(seed, self.tag(), i);
        if i % 97 == 96 {
            // the shipped table (16384 slots in the small classes): thousands of buffers of one class
            // allocated, released and allocated again
            let size = r.pick(&[0u64, 5, 8, 9, 16, 24, 32, 40, 100, 129, 256]);
            let n = r.pick(&[600u64, 4097, 5000, 9000]);
            let mut ops = vec![json!(["alloc_many", 0, size, n])];
            if r.chance(50) {
                ops.push(json!(["alloc", 1, size, 0, 77]));
            }
            ops.push(json!(["free_all", 0, r.below(3), n]));
            ops.push(json!(["probe", 3]));
            ops.push(json!(["alloc_many", 2, size, r.pick(&[10u64, 700, 5000])]));
            ops.push(json!(["free_all", 2, r.below(3), 5000]));
            return json!({"counts": pv::default_slot_counts().to_vec(), "ops": ops, "arena_slack": 8u64 << 20});
        }
        let mode = r.below(4);
        let counts: Vec<u32> = (0..20)
            .map(|_| match mode {
                0 => r.pick(&[1u32, 2, 3, 8]),
                1 => 4,
                2 => r.pick(&[1u32, 16, 64]),
                _ => r.pick(&[1u32, 2, 512]),
            })
            .collect();
        let owners = r.range(1, 16);
        let sizes = [0u64, 1, 8, 9, 16, 17, 120, 121, 128, 129, 160, 161, 192, 193, 224, 225, 256, 257, 300, 1000, 70_000];
        // rare (every live buffer is re-read after every operation): lengths around 2^16 and 2^17
        let big = [65_535u64, 65_536, 65_537, 65_544, 65_664, 65_792, 131_072, 131_200];
        // swarm: some histories hammer one or two classes only
        let focus: Option<Vec<u64>> = if r.chance(40) { Some((0..r.usize(1, 2)).map(|_| r.pick(&sizes)).collect()) } else { None };
        let nops = r.usize(1, if tier == Tier::Thorough { 2000 } else { 500 });
        let free_bias = r.pick(&[25u64, 40, 50]);
        let mut ops = vec![];
        for _ in 0..nops {
            let c = r.below(100);
            let size = match &focus {
                Some(f) if r.chance(85) => r.pick(f),
                _ => {
                    if r.chance(20) {
                        r.below(300)
                    } else if r.chance(2) {
                        r.pick(&big)
                    } else {
                        r.pick(&sizes)
                    }
                }
            };
            if c < 100 - free_bias - 6 {
                if r.chance(25) {
                    // strings beyond 2000 bytes only where the length could wrap a 16-bit class computation
                    ops.push(json!(["str", r.below(owners), if size >= 65_535 { size } else { size.min(2000) }, r.below(4), r.next() & 0xff]));
                } else {
                    ops.push(json!(["alloc", r.below(owners), size, 0, r.next() & 0xff]));
                }
            } else if c < 100 - 6 {
                ops.push(json!(["free", r.below(owners), r.below(3), r.below(64)]));
            } else {
                ops.push(json!(["probe", r.below(1000)]));
            }
        }
        if i % 101 == 57 {
            let at = r.usize(0, ops.len());
            ops.insert(at, json!(["huge_str", r.pick(&[0u64, 5, 8, 200, 256, 257, 131_072])]));
        }
        let slack: u64 = if r.chance(12) { r.pick(&[0u64, 1000, 70_000]) } else { 8 << 20 };
        json!({"counts": counts, "ops": ops, "arena_slack": slack})
    }

    fn execute(&self, case: &Value) -> RunResult {
        let mut res = RunResult::new();
        res.trace_hash = fnv(0, &serde_json::to_vec(case).unwrap());
        let mut st = Stats::default();
        mem::reset_counters();
        let verdict = run_history(case, &mut st);
        mem::set_pool_slot_counts(None);
        res.count("operations", st.ops);
        res.count("allocations", st.allocs);
        res.count("alloc_str_calls", st.str_allocs);
        res.count("releases", st.frees);
        res.count("slots_reissued", st.reissued);
        res.count("fault_class_exhausted_fallbacks", st.exhaustion_fallbacks);
        res.count("oversize_fallbacks", st.oversize_fallbacks);
        res.count("fault_backing_arena_full", st.arena_full);
        res.count("strings_longer_than_4_gib", st.huge_strings);
        res.count("releases_of_fallback_buffers", st.noop_frees);
        res.count("ownership_probe_rounds", st.probes);
        res.count("histories_with_the_shipped_slot_table_and_bulk_churn", u64::from(case["ops"][0][0] == "alloc_many"));
        res.nontrivial = st.reissued > 0 || st.exhaustion_fallbacks > 0;
        match verdict {
            Ok(()) => res,
            Err((class, msg)) => res.violation(&class, msg),
        }
    }

    fn shrink(&self, case: &Value) -> Vec<Value> {
        let mut v = vec![];
        let set = |k: &str, x: Value| {
            let mut c = case.clone();
            c[k] = x;
            c
        };
        let ops = case["ops"].as_array().unwrap();
        let n = ops.len();
        let mut size = n / 2;
        while size >= 1 && v.len() < 300 {
            let mut start = 0;
            while start < n && v.len() < 300 {
                let mut o = ops.clone();
                o.drain(start..(start + size).min(n));
                v.push(set("ops", json!(o)));
                start += size;
            }
            if size == 1 {
                break;
            }
            size /= 2;
        }
        if case["arena_slack"] != (8u64 << 20) {
            v.push(set("arena_slack", json!(8u64 << 20)));
        }
        let counts = case["counts"].as_array().unwrap();
        if counts.iter().any(|c| *c != 1) {
            v.push(set("counts", json!(vec![1; 20])));
            v.push(set("counts", json!(vec![2; 20])));
        }
        for (i, op) in ops.iter().enumerate().take(60) {
            if (op[0] == "alloc" || op[0] == "str") && op[1] != 0 {
                let mut o = ops.clone();
                o[i][1] = json!(0);
                v.push(set("ops", json!(o)));
            }
        }
        v
    }

    fn classify_crash(&self, how: &str, tail: &str, _stage: &str) -> Verdict {
        Verdict::Violation { class: "crash".into(), msg: format!("worker died in a pool operation ({how}): {}", last_lines(tail, 3)) }
    }

    fn sample(&self, case: &Value) -> Value {
        let mut c = case.clone();
        if let Some(o) = c["ops"].as_array()
            && o.len() > 16
        {
            let n = o.len();
            c["ops"] = json!({"first": o[..16], "count": n});
        }
        c
    }

    fn rule(&self) -> String {
        "case = slot counts per class (from {1,2,3,4,8,16,64,512}) x history of 1-2000 operations by 1-16 owners: alloc(size) and \
         alloc_str with sizes biased to the class boundaries 0,8,9,16,17,120,121,128,129,160,161,...,256,257, oversize and around 2^16 / 2^17 (where a narrow class computation would wrap); release of a \
         live buffer in LIFO/FIFO/random order per owner with the size it was requested with; ownership probes at block starts, ends, \
         +-1, interior and fallback addresses; faults: class exhaustion (tiny classes, focused histories) and a full backing arena. \
         After every operation: length, class block, slot boundary, no overlap, canaries of all live buffers, per-class \
         live+free+never-used == capacity and live == model, free list == set of returned slots, release lands on its own class only, \
         fallback memory fresh/outside/never recycled, contains() exactly inside blocks. Non-trivial = a slot was re-issued or a class \
         was exhausted. Distinct = hash of the history."
            .into()
    }
    fn assumptions(&self) -> Vec<String> {
        vec![
            "the pool is driven through cfg-gated public wrappers added at the end of src/arena/pool.rs (same code paths as the runtime's)".into(),
            "buffers are released with the size they were requested with, as the runtime does (capacity of the pooled string)".into(),
            "single-threaded by design (Cell-based): 'interleavings' are orders of operations by several owners, not thread schedules".into(),
        ]
    }
    fn components(&self) -> Value {
        json!({"real": ["src/arena/pool.rs (size_class, SlotBlock, FreeList, Pool, PoolSet)", "bump arena underneath"], "stub": [], "knobs": ["slot counts per class"]})
    }
}

/// `len` NUL characters: a private read-only mapping of never-touched anonymous memory (every page is
/// the kernel's zero page), created once per process.
fn zero_text(len: usize) -> &'static str {
    thread_local! {
        static ZEROS: std::cell::Cell<usize> = const { std::cell::Cell::new(0) };
    }
    const SIZE: usize = (1usize << 32) + (1 << 20);
    assert!(len <= SIZE);
    let base = ZEROS.with(|z| {
        if z.get() == 0 {
            let p = unsafe { libc::mmap(std::ptr::null_mut(), SIZE, libc::PROT_READ, libc::MAP_PRIVATE | libc::MAP_ANONYMOUS | libc::MAP_NORESERVE, -1, 0) };
            assert!(p != libc::MAP_FAILED, "cannot map the zero text");
            z.set(p as usize);
        }
        z.get()
    });
    unsafe { std::str::from_utf8_unchecked(std::slice::from_raw_parts(base as *const u8, len)) }
}
