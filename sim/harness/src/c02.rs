//! C02 `memsim`: memory reclamation is invisible. Seeded programs run twice on the real
//! interpreter — once in the documented reference configuration (one arena, nothing ever reset or
//! reused) and once with reclamation active under an adversarial reclaimer: freed memory is
//! poisoned (debug builds) or scribbled (optimised builds), pool classes are made tiny so that
//! exhaustion and arena fallback happen, and the LIFO free list re-issues a slot at once.
use naijascript::sys::verif_shim::fake_libc::{self, StdinSim};
use naijascript::sys::verif_shim::mem;
use naijascript::sys::verif_shim::world::{self, ChildOp};
use serde_json::{Value, json};

use crate::common::*;
use crate::pipeline::{self, Outcome};
use crate::prog;
use crate::rng::{Rng, fnv};

pub struct C02;

/// One execution of the program. `host`: on the simulated host (commands can be run; fixed
/// scheduling policy, so both executions of a program see the same child behaviour). `stdin`: with a
/// simulated standard input of known lines delivered in 7-byte pieces.
pub fn run_one(src: &str, with_frame: bool, host: bool, stdin: bool) -> Outcome {
    run_one_caps(src, with_frame, host, stdin, None)
}

/// `caps`: capacities (persistent arena, frame arena) in bytes instead of the roomy defaults.
pub fn run_one_caps(src: &str, with_frame: bool, host: bool, stdin: bool, caps: Option<(usize, usize)>) -> Outcome {
    if stdin {
        crate::c17::drain_carry_over();
        let mut data = Vec::new();
        for k in 0..40 {
            let len = [3usize, 9, 17, 130, 300][k % 5];
            data.extend(crate::c17::line_bytes(k, len, ["ascii", "two", "mixed"][k % 3]));
            data.push(b'\n');
        }
        fake_libc::install_stdin(StdinSim { data, plan: vec![7], ..StdinSim::default() });
    }
    let out = if host {
        let cfg = world::Config {
            scripts: vec![vec![
                ChildOp::DrainStdin,
                ChildOp::Out { data: b"child says: out \xc3\xa9".to_vec(), chunk: 5 },
                ChildOp::Err { data: vec![b'e'; 300], chunk: 64 },
                ChildOp::Exit(3),
            ]],
            pipe_cap: 16,
            epipe_die: true,
            faults: world::Faults::default(),
            jitter_seed: 1,
            keep_log: false,
        };
        let shared = std::sync::Arc::new(std::sync::Mutex::new(None));
        let sh = shared.clone();
        let src2 = src.to_string();
        // no decisions: the fixed fallback policy (stay on the task, else lowest id, clock last)
        let sched = crate::hostsim::SchedMode::Segments { segs: vec![] };
        let run = crate::hostsim::run_in_sim(cfg, &sched, true, 2_000_000, move || {
            *sh.lock().unwrap() = Some(pipeline::run_library(&src2, with_frame, None));
        });
        if let Some(m) = run.panic {
            // a panic inside the interpreter while on the simulated host: die like a plain run would
            eprintln!("{m}");
            std::process::abort();
        }
        shared.lock().unwrap().take().expect("run returned")
    } else if let Some((arena_cap, frame_cap)) = caps {
        pipeline::run_library_caps(src, with_frame, None, arena_cap, frame_cap)
    } else {
        pipeline::run_library(src, with_frame, None)
    };
    if stdin {
        fake_libc::take_stdin();
    }
    out
}

/// A function hands a `len`-element array to its caller `iters` times; the caller keeps only the
/// last one. The arenas are sized so that the reference configuration (nothing ever freed) finishes
/// with room to spare.
pub fn array_return_template(len: u64, iters: u64) -> String {
    let items = vec!["0"; len as usize].join(", ");
    format!(
        "do make_row() start\n    return [{items}]\nend\nmake row get []\nmake k get 0\njasi (k small pass {iters}) start\n    row get make_row()\n    k get k add 1\nend\nshout(row.len())\nshout(k)\n"
    )
}

pub fn pool_counts(case: &Value) -> Option<[u32; 20]> {
    let a = case["pool"].as_array()?;
    let mut c = [0u32; 20];
    for (i, x) in a.iter().enumerate().take(20) {
        c[i] = x.as_u64().unwrap_or(1).max(1) as u32;
    }
    Some(c)
}

pub fn gen_pool(r: &mut Rng) -> Value {
    match r.below(10) {
        0..=3 => Value::Null, // the shipped table
        4 | 5 => {
            let k = r.pick(&[1u32, 2, 3, 8]);
            json!(vec![k; 20])
        }
        _ => json!((0..20).map(|_| r.pick(&[1u32, 2, 3, 8, 64])).collect::<Vec<_>>()),
    }
}

/// First difference between two outcomes, for the report.
pub fn describe_diff(a: &Outcome, b: &Outcome) -> (String, String) {
    let show = |v: &[u8]| {
        let s = String::from_utf8_lossy(&v[..v.len().min(60)]).into_owned();
        format!("{s:?}{}", if v.len() > 60 { format!("… ({} bytes)", v.len()) } else { String::new() })
    };
    match (a, b) {
        (Outcome::Ran { out: o1, err: e1 }, Outcome::Ran { out: o2, err: e2 }) => {
            for (k, (x, y)) in o1.iter().zip(o2.iter()).enumerate() {
                if x != y {
                    return (
                        "output-differs".into(),
                        format!("printed value {k}: reference {} vs with reclamation {}", show(x), show(y)),
                    );
                }
            }
            if o1.len() != o2.len() {
                return (
                    "output-differs".into(),
                    format!("reference printed {} values, with reclamation {} (endings: {e1:?} vs {e2:?})", o1.len(), o2.len()),
                );
            }
            ("ending-differs".into(), format!("reference ended with {e1:?}, with reclamation {e2:?}"))
        }
        (x, y) => ("acceptance-differs".into(), format!("reference {x:?} vs {y:?}")),
    }
}

/// A worker death whose stderr shows a sane allocation size is resource exhaustion, which no
/// claimed statement covers. An absurd size is a length read from recycled memory.
pub fn is_resource_exhaustion(tail: &str) -> bool {
    for line in tail.lines() {
        if let Some(rest) = line.split("memory allocation of ").nth(1) {
            let n: u128 = rest.split(' ').next().and_then(|t| t.parse().ok()).unwrap_or(u128::MAX);
            return n < (1u128 << 36);
        }
    }
    tail.contains("arena capacity exceeded")
}

impl Engine for C02 {
    fn id(&self) -> &'static str {
        "C02"
    }
    fn tag(&self) -> u64 {
        0xC02
    }
    fn profiles(&self, _tier: Tier) -> Vec<&'static str> {
        vec!["simdbg", "simrel"]
    }
    fn runs(&self, tier: Tier, profile: &str) -> u64 {
        match (tier, profile) {
            (Tier::Quick, "simdbg") => 16_000,
            (Tier::Quick, _) => 16_000,
            (Tier::Thorough, "simdbg") => 1_200_000,
            (Tier::Thorough, _) => 1_200_000,
        }
    }

    fn generate(&self, seed: u64, i: u64, _tier: Tier) -> Value {
        if i % 401 == 200 {
            // the memory side of "the same ending": see DESIGN.md section 5 (known finding K1)
            let mut r = Rng::stream(seed, self.tag() ^ 0xa77a, i);
            // calibrated (both profiles): the reference configuration needs 19 MiB of persistent arena,
            // with reclamation active the same program needs 34 MiB
            let (len, iters) = r.pick(&[(1000u64, 400u64), (500, 800)]);
            return json!({
                "template": "array-return", "len": len, "iters": iters, "arena_kib": 26624, "frame_kib": 4096,
                "host": false, "stdin": false, "prog": [], "src": array_return_template(len, iters), "pool": Value::Null, "scribble": Value::Null,
            });
        }
        let mut r = Rng::stream(seed, self.tag(), i);
        let knobs = r.fork();
        let mut g = prog::Gen::new(r);
        let p = g.program();
        let mut k = knobs;
        json!({
            "host": g.use_run,
            "stdin": g.use_stdin,
            "prog": prog::block_to_json(&p),
            "pool": gen_pool(&mut k),
            "scribble": k.pick(&[0x23u8, 0x7e, 0x00, 0xdd]),
        })
    }

    fn execute(&self, case: &Value) -> RunResult {
        let mut res = RunResult::new();
        let p = prog::block_from_json(&case["prog"]);
        let src = if let Some(s) = case["src"].as_str() { s.to_string() } else { prog::render(&p) };
        res.trace_hash = fnv(0, src.as_bytes());
        let counts = pool_counts(case);

        stage("reference");
        mem::set_scribble(None);
        mem::set_pool_slot_counts(counts);
        let (host, stdin) = (case["host"].as_bool().unwrap_or(false), case["stdin"].as_bool().unwrap_or(false));
        res.count("programs_running_commands_on_the_simulated_host", u64::from(host));
        res.count("programs_reading_simulated_stdin", u64::from(stdin));
        let template = case["template"].as_str();
        let caps = case["arena_kib"].as_u64().map(|a| ((a as usize) << 10, (case["frame_kib"].as_u64().unwrap_or(4096) as usize) << 10));
        if let Some(t) = template {
            res.count(&format!("template_{t}"), 1);
            stage(&format!("reference {t}"));
        }
        let reference = run_one_caps(&src, false, host, stdin, caps);
        match &reference {
            Outcome::Rejected(m) => {
                mem::set_pool_slot_counts(None);
                let kind = m.split('@').next().unwrap_or("").trim().to_string();
                res.verdict = Verdict::Discard(format!("rejected-by-checker: {kind}"));
                return res;
            }
            Outcome::Ran { err, .. } if err.iter().any(|e| e.starts_with("Stack overflow")) => {
                mem::set_pool_slot_counts(None);
                res.verdict = Verdict::Discard("reference-stack-overflow".into());
                return res;
            }
            Outcome::Ran { .. } => {}
        }

        stage(&template.map_or_else(|| "reclaiming".to_string(), |t| format!("reclaiming {t}")));
        mem::reset_counters();
        mem::set_scribble(case["scribble"].as_u64().map(|b| b as u8));
        let sut = run_one_caps(&src, true, host, stdin, caps);
        mem::set_scribble(None);
        mem::set_pool_slot_counts(None);
        let c = mem::counters();
        stage("done");

        res.count("frame_or_staging_resets_that_freed_bytes", c.arena_resets);
        res.count("bytes_freed_by_resets", c.arena_reset_bytes);
        res.count("pool_slots_returned", c.pool_deallocs);
        res.count("pool_slots_reissued", c.pool_reissues);
        res.count("pool_exhausted_or_oversize_fallbacks", c.pool_fallbacks);
        res.count("bytes_scribbled_by_adversarial_reclaimer", c.scribbled_bytes);
        res.count("runs_with_tiny_pools", u64::from(counts.is_some()));
        if let Outcome::Ran { err, out } = &reference {
            res.count("runs_ending_in_runtime_error", u64::from(!err.is_empty()));
            res.count("values_printed", out.len() as u64);
        }
        res.nontrivial = c.pool_reissues > 0 || c.arena_resets > 0;
        if reference != sut {
            let (class, msg) = describe_diff(&reference, &sut);
            res.detail = json!({"source": src});
            return res.violation(&class, msg);
        }
        res
    }

    fn shrink(&self, case: &Value) -> Vec<Value> {
        let mut v = vec![];
        if !case["template"].is_null() {
            return v;
        }
        if !case["pool"].is_null() {
            let mut c = case.clone();
            c["pool"] = Value::Null;
            v.push(c);
        }
        let p = prog::block_from_json(&case["prog"]);
        for cand in prog::shrink_candidates(&p, 400) {
            let mut c = case.clone();
            c["prog"] = prog::block_to_json(&cand);
            v.push(c);
        }
        v
    }

    fn concretise(&self, case: &Value, _r: &RunResult, final_: bool) -> Value {
        let mut c = case.clone();
        if final_ {
            // human-readable rendition (informational; the IR in "prog" is what runs)
            c["source"] = json!(prog::render(&prog::block_from_json(&case["prog"])));
        }
        c
    }

    fn classify_crash(&self, how: &str, tail: &str, stage: &str) -> Verdict {
        if stage == "reclaiming array-return" && is_resource_exhaustion(tail) {
            // the reference finished in the same persistent arena: reclamation made the program need more
            return Verdict::Violation {
                class: "array-copies-exhaust-memory".into(),
                msg: format!("the reference configuration finished, with reclamation active the interpreter ran out of the same persistent arena ({how}): {}", last_lines(tail, 2)),
            };
        }
        if is_resource_exhaustion(tail) {
            return Verdict::Discard("allocation-failure (resource exhaustion)".into());
        }
        if !stage.starts_with("reclaiming") {
            // the documented reference configuration itself died: not this property's business
            return Verdict::Discard(format!("reference-run-died: {}", crash_kind(tail)));
        }
        Verdict::Violation {
            class: "crash".into(),
            msg: format!("interpreter died with reclamation active, reference run completed ({how}): {}", last_lines(tail, 3)),
        }
    }

    fn sample(&self, case: &Value) -> Value {
        json!({"pool": case["pool"], "scribble": case["scribble"],
               "source": prog::render(&prog::block_from_json(&case["prog"]))})
    }

    fn rule(&self) -> String {
        "case = generated typed program (globals, 1-3 functions incl. nested and recursive ones, computed strings of lengths \
         around the pool class boundaries 8/9,16/17,128/129,160/161,256/257, arrays and nested arrays of them, command builders; \
         make/reassign/index-assign/push/pop/reverse/join/split/replace/slice; returns of parameters, locals, captured variables, \
         elements, builders; callees that reassign captured variables while the caller holds evaluated operands; loops with \
         comot/next/return; shadowing) x reclaimer knobs (pool slot counts per class from {shipped,1,2,3,8,64}; scribble byte for \
         reclaimed memory in the optimised build; 0xDD poison + pool poison assertion in the debug-assertion build). \
         Each program runs twice: Runtime::new(arena, None) (reference) and Runtime::new(arena, Some(frame)). \
         Non-trivial = at least one pool slot was re-issued or one arena reset freed bytes during the second run (hook counters). \
         Distinct = hash of the program text."
            .into()
    }
    fn assumptions(&self) -> Vec<String> {
        vec![
            "the reference is the interpreter itself with reclamation switched off, as the property defines it".into(),
            "programs the checker rejects, reference runs that end in Stack overflow or die (C06/C08/C13 matters) and worker deaths from genuine allocation failure are discarded and counted".into(),
            "search needles are kept <= 2 bytes (longer needles panic in src/builtins/tw.rs, a C13 matter)".into(),
        ]
    }
    fn components(&self) -> Value {
        json!({"real": ["lexer", "parser", "resolver + analyses", "runtime", "bump arena", "string pool", "ArenaCow/ArenaString", "process builder values"],
               "stub": [], "knobs": ["pool slot counts (PoolSet::new hook)", "scribble on reclaim (bump::reset / Pool::dealloc hooks, optimised build only)"]})
    }
}
