#![feature(allocator_api)]
//! simcheck: deterministic simulation with fault injection for xosnrdev/naijascript.
//!
//!   simcheck run <id> <quick|thorough>     the check (parent: spawns worker processes)
//!   simcheck replay <id> <file>            re-run a replay file
//!   simcheck selftest <id> <quick|thorough> determinism self-test
//!   simcheck worker <id> <seed> <lo> <hi> <tier>   (internal)
//!   simcheck exec <id> <file>                      (internal)
mod c02;
mod c11;
mod c12;
mod c14;
mod c15;
mod c16;
mod c17;
mod common;
mod hostsim;
mod pipeline;
mod realos;
mod prog;
mod rng;

use std::path::PathBuf;
use std::time::{Duration, Instant};

use common::{Ctx, Engine, Tier};

pub const DEFAULT_SEED: u64 = 20_260_925;

fn engine(id: &str) -> &'static dyn Engine {
    match id {
        "C02" => &c02::C02,
        "C11" => &c11::C11,
        "C12" => &c12::C12,
        "C14" => &c14::C14,
        "C15" => &c15::C15,
        "C16" => &c16::C16,
        "C17" => &c17::C17,
        _ => {
            eprintln!("harness error: no engine for property {id}");
            std::process::exit(2)
        }
    }
}

fn ctx(tier: Tier) -> Ctx {
    let seed = std::env::var("VERIF_SEED")
        .ok()
        .and_then(|s| s.trim().parse::<i128>().ok())
        .map_or(DEFAULT_SEED, |v| v as u64);
    let jobs = std::env::var("VERIF_JOBS")
        .ok()
        .and_then(|s| s.parse().ok())
        .unwrap_or_else(|| std::thread::available_parallelism().map_or(8, usize::from).min(16));
    let verif_dir = PathBuf::from(std::env::var("VERIF_DIR").unwrap_or_else(|_| "/verif".into()));
    let tmp_dir = verif_dir.join("target").join("tmp");
    let deadline = std::env::var("VERIF_BUDGET_SECS")
        .ok()
        .and_then(|s| s.parse::<u64>().ok())
        .map(|s| Instant::now() + Duration::from_secs(s));
    Ctx { seed, tier, jobs, verif_dir, tmp_dir, deadline }
}

fn main() {
    // nothing this harness does needs more; a runaway must not take the machine down
    unsafe {
        let lim = libc::rlimit { rlim_cur: 24 << 30, rlim_max: 24 << 30 };
        libc::setrlimit(libc::RLIMIT_AS, &lim);
    }
    let a: Vec<String> = std::env::args().collect();
    let arg = |k: usize| a.get(k).map(String::as_str).unwrap_or("");
    match arg(1) {
        "run" => {
            let e = engine(arg(2));
            let c = ctx(Tier::parse(arg(3)));
            std::process::exit(common::check(e, &c).exit);
        }
        "replay" => {
            let e = engine(arg(2));
            let c = ctx(Tier::Quick);
            std::process::exit(common::replay(e, &c, arg(3)));
        }
        "selftest" => {
            let e = engine(arg(2));
            let c = ctx(Tier::parse(arg(3)));
            std::process::exit(common::selftest(e, &c));
        }
        "worker" => {
            let e = engine(arg(2));
            let seed: u64 = arg(3).parse().expect("seed");
            let lo: u64 = arg(4).parse().expect("lo");
            let hi: u64 = arg(5).parse().expect("hi");
            common::worker_main(e, seed, lo, hi, Tier::parse(arg(6)));
        }
        "seq" => {
            // execute the given run indices in this order in ONE process (debugging state leaks)
            let e = engine(arg(2));
            let c = ctx(Tier::parse(&std::env::var("VERIF_TIER").unwrap_or_default()));
            for a in &a[3..] {
                let i: u64 = a.parse().expect("index");
                let r = e.execute(&e.generate(c.seed, i, c.tier));
                eprintln!("seq {i}: {:?}", r.verdict);
            }
        }
        "gen" => {
            // print the materialised case of run <index> (for debugging)
            let e = engine(arg(2));
            let c = ctx(Tier::parse(arg(4)));
            let i: u64 = arg(3).parse().expect("index");
            println!("{}", serde_json::to_string(&e.generate(c.seed, i, c.tier)).unwrap());
        }
        "exec" => {
            let e = engine(arg(2));
            common::exec_main(e, arg(3));
        }
        _ => {
            eprintln!("usage: simcheck run|replay|selftest <id> ...");
            std::process::exit(2);
        }
    }
}
