//! Cross-checks against the real operating system: the shipped, un-hooked `naija` binary runs a
//! generated script that spawns the real helper child (sim/realchild.rs). These runs validate the
//! simulated host's model of the OS (and remove "the stub is trusted" for the main path); they
//! are a small share of each check's cases and their verdicts never depend on timing margins.
use std::io::Write;
use std::process::{Command, Stdio};

pub struct NaijaRun {
    pub stdout: Vec<u8>,
    pub stderr: Vec<u8>,
    pub code: i32,
}

pub fn naija_bin() -> Result<String, String> {
    let b = std::env::var("NAIJA_BIN_dev").map_err(|_| "NAIJA_BIN_dev is not set".to_string())?;
    if !std::path::Path::new(&b).exists() {
        return Err(format!("{b} does not exist (run ./check setup)"));
    }
    Ok(b)
}
pub fn realchild_bin() -> Result<String, String> {
    let b = std::env::var("REALCHILD_BIN").map_err(|_| "REALCHILD_BIN is not set".to_string())?;
    if !std::path::Path::new(&b).exists() {
        return Err(format!("{b} does not exist (run ./check setup)"));
    }
    Ok(b)
}
pub fn tmp_dir() -> String {
    let v = std::env::var("VERIF_DIR").unwrap_or_else(|_| "/verif".into());
    let d = format!("{v}/target/tmp/real-{}", std::process::id());
    let _ = std::fs::create_dir_all(&d);
    d
}

/// Runs `naija <script file>`; `feed` = pieces written to its stdin (with a flush and an optional
/// pause in milliseconds after each), None = /dev/null.
pub fn run_naija(src: &str, feed: Option<&[(Vec<u8>, u64)]>) -> Result<NaijaRun, String> {
    let bin = naija_bin()?;
    let path = format!("{}/script.ns", tmp_dir());
    std::fs::write(&path, src).map_err(|e| format!("write {path}: {e}"))?;
    let mut cmd = Command::new(&bin);
    cmd.arg(&path).stdout(Stdio::piped()).stderr(Stdio::piped());
    cmd.stdin(if feed.is_some() { Stdio::piped() } else { Stdio::null() });
    for (k, _) in std::env::vars() {
        if k.starts_with("VK_") {
            cmd.env_remove(k);
        }
    }
    let mut child = cmd.spawn().map_err(|e| format!("spawn {bin}: {e}"))?;
    if let Some(pieces) = feed {
        let mut stdin = child.stdin.take().unwrap();
        let pieces = pieces.to_vec();
        // feed from a thread so that a full pipe cannot deadlock against our reading of stdout
        std::thread::spawn(move || {
            for (bytes, pause) in pieces {
                if stdin.write_all(&bytes).is_err() {
                    break;
                }
                let _ = stdin.flush();
                if pause > 0 {
                    std::thread::sleep(std::time::Duration::from_millis(pause));
                }
            }
        });
    }
    let out = child.wait_with_output().map_err(|e| format!("wait: {e}"))?;
    Ok(NaijaRun { stdout: out.stdout, stderr: out.stderr, code: out.status.code().unwrap_or(-1) })
}

pub fn unhex(s: &str) -> Vec<u8> {
    (0..s.len() / 2).filter_map(|i| u8::from_str_radix(&s[2 * i..2 * i + 2], 16).ok()).collect()
}

pub fn pid_alive(pid: i32) -> bool {
    // a zombie still "exists" for kill(pid, 0); look at its state
    match std::fs::read_to_string(format!("/proc/{pid}/stat")) {
        Ok(s) => {
            let state = s.rsplit(") ").next().and_then(|r| r.chars().next()).unwrap_or('?');
            state != 'Z' && state != 'X'
        }
        Err(_) => false,
    }
}
