//! Cross-checks against the real operating system: the shipped, un-hooked `naija` binary runs a
//! generated script that spawns the real helper child (sim/realchild.rs). These runs validate the
//! simulated host's model of the OS (and remove "the stub is trusted" for the main path); they
//! are a small share of each check's cases and their verdicts never depend on timing margins.
use std::io::Write;
use std::process::{Command, Stdio};

pub struct NaijaRun {
    pub stdout: Vec<u8>,
    pub stderr: Vec<u8>,
    pub code: i32,
    /// processes of the binary's process group that were still alive when it returned
    pub leftover: Vec<i32>,
}

/// Live (non-zombie) processes whose process group is `pgid`.
fn group_members(pgid: i32) -> Vec<i32> {
    let mut v = vec![];
    let Ok(dir) = std::fs::read_dir("/proc") else { return v };
    for e in dir.flatten() {
        let Some(pid) = e.file_name().to_str().and_then(|s| s.parse::<i32>().ok()) else { continue };
        let Ok(stat) = std::fs::read_to_string(format!("/proc/{pid}/stat")) else { continue };
        // pid (comm) state ppid pgrp ...
        let Some(rest) = stat.rsplit(") ").next() else { continue };
        let f: Vec<&str> = rest.split(' ').collect();
        if f.len() > 2 && f[0] != "Z" && f[0] != "X" && f[2].parse::<i32>().ok() == Some(pgid) {
            v.push(pid);
        }
    }
    v
}

pub fn naija_bin() -> Result<String, String> {
    let b = std::env::var("NAIJA_BIN_dev").map_err(|_| "NAIJA_BIN_dev is not set".to_string())?;
    if !std::path::Path::new(&b).exists() {
        return Err(format!("{b} does not exist (run ./check setup)"));
    }
    Ok(b)
}
pub fn realchild_bin() -> Result<String, String> {
    let b = std::env::var("REALCHILD_BIN").map_err(|_| "REALCHILD_BIN is not set".to_string())?;
    if !std::path::Path::new(&b).exists() {
        return Err(format!("{b} does not exist (run ./check setup)"));
    }
    Ok(b)
}
pub fn tmp_dir() -> String {
    let v = std::env::var("VERIF_DIR").unwrap_or_else(|_| "/verif".into());
    let d = format!("{v}/target/tmp/real-{}", std::process::id());
    let _ = std::fs::create_dir_all(&d);
    d
}

/// How standard input reaches the binary.
pub enum Feed<'a> {
    Null,
    /// a pipe: pieces are written with a flush and an optional pause (ms) after each; the kernel
    /// may still coalesce them, so what each read(2) returns depends on timing
    Pipe(&'a [(Vec<u8>, u64)]),
    /// a SOCK_SEQPACKET socket pair: every read(2) returns exactly one piece, whatever the timing
    /// (pieces must not exceed the reader's buffer)
    Packets(&'a [Vec<u8>]),
    /// standard input is this path opened read-only (a file, or a directory to make reads fail)
    Path(&'a str),
}

/// Runs `naija <script file>` with the given stdin.
pub fn run_naija(src: &str, feed: Option<&[(Vec<u8>, u64)]>) -> Result<NaijaRun, String> {
    let path = format!("{}/script.ns", tmp_dir());
    std::fs::write(&path, src).map_err(|e| format!("write {path}: {e}"))?;
    run_naija_args(&naija_bin()?, &[&path], match feed {
        Some(f) => Feed::Pipe(f),
        None => Feed::Null,
    })
}

pub fn run_naija_args(bin: &str, args: &[&str], feed: Feed<'_>) -> Result<NaijaRun, String> {
    use std::os::fd::{FromRawFd, OwnedFd};
    let mut cmd = Command::new(bin);
    cmd.args(args).stdout(Stdio::piped()).stderr(Stdio::piped());
    for (k, _) in std::env::vars() {
        if k.starts_with("VK_") {
            cmd.env_remove(k);
        }
    }
    let mut sender: Option<OwnedFd> = None;
    match &feed {
        Feed::Null => {
            cmd.stdin(Stdio::null());
        }
        Feed::Pipe(_) => {
            cmd.stdin(Stdio::piped());
        }
        Feed::Path(p) => {
            let f = std::fs::File::open(p).map_err(|e| format!("open {p}: {e}"))?;
            cmd.stdin(Stdio::from(f));
        }
        Feed::Packets(_) => {
            let mut fds = [0i32; 2];
            let r = unsafe { libc::socketpair(libc::AF_UNIX, libc::SOCK_SEQPACKET | libc::SOCK_CLOEXEC, 0, fds.as_mut_ptr()) };
            if r != 0 {
                return Err(format!("socketpair: {}", std::io::Error::last_os_error()));
            }
            let (a, b) = unsafe { (OwnedFd::from_raw_fd(fds[0]), OwnedFd::from_raw_fd(fds[1])) };
            cmd.stdin(Stdio::from(a));
            sender = Some(b);
        }
    }
    // own process group, so that a run that does not end can be killed together with its children
    {
        use std::os::unix::process::CommandExt;
        cmd.process_group(0);
    }
    let mut child = cmd.spawn().map_err(|e| format!("spawn {bin}: {e}"))?;
    let pgid = child.id() as i32;
    drop(cmd); // closes our copy of the child's end
    // no real run of this harness needs more than a few seconds; 90 s is "never finished"
    let done = std::sync::Arc::new(std::sync::atomic::AtomicBool::new(false));
    let timed_out = std::sync::Arc::new(std::sync::atomic::AtomicBool::new(false));
    {
        let (done, timed_out) = (done.clone(), timed_out.clone());
        std::thread::spawn(move || {
            let t0 = std::time::Instant::now();
            while !done.load(std::sync::atomic::Ordering::SeqCst) {
                if t0.elapsed().as_secs() >= 90 {
                    timed_out.store(true, std::sync::atomic::Ordering::SeqCst);
                    unsafe { libc::kill(-pgid, libc::SIGKILL) };
                    return;
                }
                std::thread::sleep(std::time::Duration::from_millis(50));
            }
        });
    }
    match feed {
        Feed::Null | Feed::Path(_) => {}
        Feed::Pipe(pieces) => {
            let mut stdin = child.stdin.take().unwrap();
            let pieces = pieces.to_vec();
            // feed from a thread so that a full pipe cannot deadlock against our reading of stdout
            std::thread::spawn(move || {
                for (bytes, pause) in pieces {
                    if stdin.write_all(&bytes).is_err() {
                        break;
                    }
                    let _ = stdin.flush();
                    if pause > 0 {
                        std::thread::sleep(std::time::Duration::from_millis(pause));
                    }
                }
            });
        }
        Feed::Packets(packets) => {
            use std::os::fd::AsRawFd;
            let fd = sender.take().unwrap();
            let packets = packets.to_vec();
            std::thread::spawn(move || {
                for p in packets {
                    if p.is_empty() {
                        continue; // a zero-length packet would read as end of input
                    }
                    let n = unsafe { libc::send(fd.as_raw_fd(), p.as_ptr().cast(), p.len(), libc::MSG_NOSIGNAL) };
                    if n < 0 {
                        break;
                    }
                }
                drop(fd);
            });
        }
    }
    let out = child.wait_with_output().map_err(|e| format!("wait: {e}"))?;
    done.store(true, std::sync::atomic::Ordering::SeqCst);
    // whatever the binary left behind in its process group is recorded, then goes
    let leftover = group_members(pgid);
    unsafe { libc::kill(-pgid, libc::SIGKILL) };
    if timed_out.load(std::sync::atomic::Ordering::SeqCst) {
        return Ok(NaijaRun { stdout: out.stdout, stderr: b"killed by the harness: still running after 90 s".to_vec(), code: -9, leftover });
    }
    Ok(NaijaRun { stdout: out.stdout, stderr: out.stderr, code: out.status.code().unwrap_or(-1), leftover })
}

pub fn unhex(s: &str) -> Vec<u8> {
    (0..s.len() / 2).filter_map(|i| u8::from_str_radix(&s[2 * i..2 * i + 2], 16).ok()).collect()
}

pub fn pid_alive(pid: i32) -> bool {
    // a zombie still "exists" for kill(pid, 0); look at its state
    match std::fs::read_to_string(format!("/proc/{pid}/stat")) {
        Ok(s) => {
            let state = s.rsplit(") ").next().and_then(|r| r.chars().next()).unwrap_or('?');
            state != 'Z' && state != 'X'
        }
        Err(_) => false,
    }
}
