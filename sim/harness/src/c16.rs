//! C16: captured child output is complete or an error; the child is not left running.
//! The real `run_host_process` (wait loop, stdin writer, two bounded readers, overflow flag) runs
//! on the simulated host under a seeded scheduler; the oracle judges the recorded history.
use std::sync::{Arc, Mutex};

use naijascript::arena::{Arena, ArenaString};
use naijascript::process::{
    HostPolicy, OutputPolicy, ProcessCaps, ProcessCommand, ProcessError, StdinPolicy,
};
use naijascript::sys::verif_shim::world::{self, ChildOp};
use naijascript::sys::{self, ProcessRunner};
use serde_json::{Value, json};

use crate::common::*;
use crate::hostsim::{self, SchedMode, WorldObs};
use crate::pipeline;
use crate::realos;
use crate::rng::{Rng, fnv, fnv_u64};

pub struct C16;

/// Bytes the child writes: position-dependent and from disjoint alphabets per stream, so that
/// loss, duplication, reordering and cross-stream leakage are all attributable.
pub fn stream_bytes(stream: usize, offset: usize, len: usize, kind: &str) -> Vec<u8> {
    let base = if stream == 1 { b'a' } else { b'A' };
    let mut v = Vec::with_capacity(len + 2);
    let mut i = 0;
    while v.len() < len {
        let pos = offset + i;
        i += 1;
        if kind == "multi" && pos % 5 == 4 && v.len() + 2 <= len {
            // ö / Ö : two-byte characters that chunking may split
            v.extend_from_slice(if stream == 1 { "ö".as_bytes() } else { "Ö".as_bytes() });
        } else {
            v.push(base + (pos % 23) as u8);
        }
    }
    if kind == "cut" && len > 0 {
        // valid text that ends inside a multi-byte character (an incomplete trailing sequence)
        let tails: [&[u8]; 3] = [&[0xC3], &[0xE2, 0x82], &[0xF0, 0x9F, 0x98]];
        let t = tails[offset % 3];
        let n = t.len().min(len);
        let at = len - n;
        v.truncate(at);
        // keep what precedes the tail valid: drop a split "ö" if the cut fell inside one
        while std::str::from_utf8(&v).is_err() {
            v.pop();
        }
        while v.len() < at {
            v.push(base);
        }
        v.extend_from_slice(&t[..n]);
    }
    if kind == "edge" {
        // valid text whose first and last characters are the ones text handling likes to drop:
        // a byte-order mark, line ends, blanks, NUL (round 9: C16-26 stripped a leading U+FEFF)
        let heads: [&[u8]; 6] = [&[0xEF, 0xBB, 0xBF], b"\n", b"\r\n", b" ", &[0], b"\t"];
        let tails: [&[u8]; 6] = [b"\n", b"\r\n", b" ", &[0], &[0xEF, 0xBB, 0xBF], b"\n\n"];
        let h = heads[offset % 6];
        let t = tails[(offset / 6 + len) % 6];
        if h.len() <= len {
            v[..h.len()].copy_from_slice(h);
        }
        if h.len() + t.len() <= len {
            let at = len - t.len();
            v[at..].copy_from_slice(t);
        }
    }
    if let Some(k) = kind.strip_prefix("bad@")
        && len > 0
    {
        let k: usize = k.parse().unwrap_or(0) % len;
        v[k] = if stream == 1 { 0xFF } else { 0xFE };
    }
    v
}

pub fn script_of(case: &Value) -> Vec<ChildOp> {
    let mut ops = vec![];
    let mut off = [0usize; 3];
    for o in case["script"].as_array().unwrap() {
        let (k, x) = o.as_object().unwrap().iter().next().unwrap();
        match k.as_str() {
            "out" | "err" => {
                let s = if k == "out" { 1 } else { 2 };
                let len = x["len"].as_u64().unwrap() as usize;
                let data = stream_bytes(s, off[s], len, x["kind"].as_str().unwrap_or("ascii"));
                off[s] += len;
                let chunk = x["chunk"].as_u64().unwrap() as usize;
                ops.push(if s == 1 { ChildOp::Out { data, chunk } } else { ChildOp::Err { data, chunk } });
            }
            "sleep" => ops.push(ChildOp::Sleep(x.as_u64().unwrap())),
            "close_out" => ops.push(ChildOp::CloseOut),
            "close_err" => ops.push(ChildOp::CloseErr),
            "drain_stdin" => ops.push(ChildOp::DrainStdin),
            "read_stdin" => ops.push(ChildOp::ReadStdin(x.as_u64().unwrap() as usize)),
            "exit" => ops.push(ChildOp::Exit(x.as_i64().unwrap() as i32)),
            "signal" => ops.push(ChildOp::Signal),
            _ => {}
        }
    }
    ops
}

pub fn faults_of(case: &Value) -> world::Faults {
    let f = &case["faults"];
    let list = |k: &str| -> Vec<usize> {
        f[k].as_array().map(|a| a.iter().map(|x| x.as_u64().unwrap() as usize).collect()).unwrap_or_default()
    };
    world::Faults {
        spawn_errors: f["spawn_errors"]
            .as_array()
            .map(|a| a.iter().map(|e| (e[0].as_u64().unwrap() as u32, e[1].as_i64().unwrap() as i32)).collect())
            .unwrap_or_default(),
        read_limits: list("read_limits"),
        write_limits: list("write_limits"),
        read_errors: f["read_errors"]
            .as_array()
            .map(|a| {
                a.iter()
                    .map(|e| (e[0].as_u64().unwrap() as usize, e[1].as_u64().unwrap(), e[2].as_i64().unwrap() as i32))
                    .collect()
            })
            .unwrap_or_default(),
        jitter_pct: f["jitter"][0].as_u64().unwrap_or(0),
        jitter_max: f["jitter"][1].as_u64().unwrap_or(0),
    }
}

fn pol(p: u64) -> OutputPolicy {
    match p {
        0 => OutputPolicy::Inherit,
        1 => OutputPolicy::Null,
        _ => OutputPolicy::Capture,
    }
}

/// What the caller of the runner saw.
#[derive(Clone, Debug, Default)]
pub struct Seen {
    pub ok: bool,
    pub code: Option<i32>,
    pub success: bool,
    pub out: Option<Vec<u8>>,
    pub err: Option<Vec<u8>>,
    /// "timeout" | "limit:stdout" | "limit:stderr" | "utf8:stdout" | "utf8:stderr" | "spawn" | other text
    pub errkind: String,
    pub raw: String,
}

fn seen_from_script(o: &pipeline::Outcome) -> Result<Seen, String> {
    let pipeline::Outcome::Ran { out, err } = o else {
        return Err(format!("script rejected: {o:?}"));
    };
    let mut s = Seen::default();
    if let Some(e) = err.first() {
        s.raw = e.clone();
        let stream = if e.contains("stdout") {
            "stdout"
        } else if e.contains("stderr") {
            "stderr"
        } else {
            "?"
        };
        s.errkind = if e.starts_with("Process timeout") {
            "timeout".into()
        } else if e.starts_with("Process output limit exceeded") {
            format!("limit:{stream}")
        } else if e.starts_with("Process output no be valid UTF-8") {
            format!("utf8:{stream}")
        } else if e.starts_with("Process spawn failed") {
            "spawn".into()
        } else {
            format!("other:{e}")
        };
        if !out.is_empty() {
            return Err(format!("script printed {} values although run() failed", out.len()));
        }
        return Ok(s);
    }
    if out.len() != 4 {
        return Err(format!("script printed {} values, expected 4", out.len()));
    }
    s.ok = true;
    s.success = out[0] == b"true";
    s.code = std::str::from_utf8(&out[1]).ok().and_then(|t| t.parse::<f64>().ok()).map(|f| f as i32);
    if out[1] != b"null" && s.code.is_none() {
        return Err(format!("exit_code printed as {:?}", String::from_utf8_lossy(&out[1])));
    }
    s.out = if out[2] == b"null" { None } else { Some(out[2].clone()) };
    s.err = if out[3] == b"null" { None } else { Some(out[3].clone()) };
    s.raw = "Ok".into();
    Ok(s)
}

pub fn errkind_of(e: &ProcessError) -> String {
    match e {
        ProcessError::Timeout => "timeout".into(),
        ProcessError::OutputLimitExceeded(s) => format!("limit:{}", s.as_str()),
        ProcessError::InvalidUtf8(s) => format!("utf8:{}", s.as_str()),
        ProcessError::SpawnFailed(_) => "spawn".into(),
        other => format!("other:{other:?}"),
    }
}

/// Steps the run may take before "no progress" is declared: proportional to the number of pipe
/// transfers the scenario needs and the number of poll iterations until the timeout.
pub fn step_budget(case: &Value) -> usize {
    let pipe = case["pipe_cap"].as_u64().unwrap_or(1).max(1) as usize;
    let rl = case["faults"]["read_limits"]
        .as_array()
        .and_then(|a| a.iter().filter_map(Value::as_u64).filter(|x| *x > 0).min())
        .unwrap_or(u64::MAX) as usize;
    let mut transfers = 0usize;
    for o in case["script"].as_array().unwrap() {
        let (k, x) = o.as_object().unwrap().iter().next().unwrap();
        if k == "out" || k == "err" {
            let len = x["len"].as_u64().unwrap() as usize;
            let unit = pipe.min(x["chunk"].as_u64().unwrap().max(1) as usize).min(rl).max(1);
            transfers += len / unit + 1;
        }
    }
    let wl = case["faults"]["write_limits"]
        .as_array()
        .and_then(|a| a.iter().filter_map(Value::as_u64).filter(|x| *x > 0).min())
        .unwrap_or(u64::MAX) as usize;
    transfers += case["stdin_len"].as_u64().unwrap_or(0) as usize / pipe.min(wl).max(1) + 1;
    let polls = (case["timeout"].as_u64().unwrap_or(1) / case["poll"].as_u64().unwrap_or(1).max(1)) as usize + 2;
    60_000 + 400 * transfers + 400 * polls
}

impl C16 {
    /// Executes the scenario once; returns what the caller saw, the world's history, and the
    /// scheduler's decisions.
    pub fn run_once(case: &Value, keep_log: bool) -> (Result<Seen, String>, WorldObs, hostsim::HostRun) {
        let sched = SchedMode::from_json(&case["sched"]);
        let cfg = world::Config {
            scripts: vec![script_of(case)],
            pipe_cap: case["pipe_cap"].as_u64().unwrap() as usize,
            epipe_die: case["epipe_die"].as_bool().unwrap_or(true),
            faults: faults_of(case),
            jitter_seed: case["jitter_seed"].as_u64().unwrap_or(1),
            keep_log,
        };
        let shared: Arc<Mutex<(Option<Result<Seen, String>>, WorldObs)>> =
            Arc::new(Mutex::new((None, WorldObs::default())));
        let sh = shared.clone();
        let c = case.clone();
        let pure_des = case["pure_des"].as_bool().unwrap_or(false);
        let run = hostsim::run_in_sim(cfg, &sched, pure_des, step_budget(case), move || {
            let cap = c["cap"].as_u64().unwrap() as u32;
            let timeout = c["timeout"].as_u64().unwrap() as u32;
            let poll = c["poll"].as_u64().unwrap() as u32;
            let stdin_text = "i".repeat(c["stdin_len"].as_u64().unwrap_or(0) as usize);
            let mut caps = ProcessCaps::defaults();
            caps.max_capture_bytes_per_stream = cap;
            caps.wait_poll_ms = poll;
            // "default_timeout": the script never calls timeout_ms; the host's default is the deadline
            let use_default = c["default_timeout"].as_bool().unwrap_or(false);
            if use_default {
                caps.default_timeout_ms = timeout;
                caps.max_timeout_ms = caps.max_timeout_ms.max(timeout.saturating_mul(4));
            }
            let seen = if c["mode"] == "direct" {
                let arena = Arena::new(8 << 20).unwrap();
                let mut cmd = ProcessCommand::new("simchild", &arena);
                cmd.set_stdout_policy(pol(c["out_pol"].as_u64().unwrap()));
                cmd.set_stderr_policy(pol(c["err_pol"].as_u64().unwrap()));
                match c["stdin_pol"].as_u64().unwrap() {
                    0 => cmd.set_stdin_policy(StdinPolicy::Inherit),
                    1 => cmd.set_stdin_policy(StdinPolicy::Null),
                    _ => cmd.set_stdin_text(ArenaString::from_str(&arena, &stdin_text)),
                }
                if !use_default {
                    cmd.set_timeout_ms(timeout);
                }
                match cmd.validate(&caps) {
                    Err(e) => Err(format!("scenario rejected by validate: {e:?}")),
                    Ok(spec) => {
                        let mut s = Seen::default();
                        match sys::process::run(&spec, &caps, &arena) {
                            Ok(r) => {
                                s.ok = true;
                                s.code = r.exit_code;
                                s.success = r.success;
                                s.out = r.stdout.as_ref().map(|x| x.as_bytes().to_vec());
                                s.err = r.stderr.as_ref().map(|x| x.as_bytes().to_vec());
                                s.raw = "Ok".into();
                            }
                            Err(e) => {
                                s.errkind = errkind_of(&e);
                                s.raw = format!("{e:?}");
                            }
                        }
                        Ok(s)
                    }
                }
            } else {
                let polname = |p: u64| match p {
                    0 => "inherit",
                    1 => "null",
                    _ => "capture",
                };
                let mut src = String::from("make c get command(\"simchild\")\n");
                let shape = c["script_shape"].as_u64().unwrap_or(0);
                if shape == 6 || shape == 7 {
                    // 6: the builder is a parameter of a recursive function and is configured and run in the
                    //    innermost activation. 7: the builder lives in an array slot and is configured by a
                    //    helper that a function with a local of the same name calls
                    let recv = if shape == 6 { "k" } else { "jobs[0]" };
                    let mut cfg_lines = format!("    {recv}.stdout_{}()\n    {recv}.stderr_{}()\n", polname(c["out_pol"].as_u64().unwrap()), polname(c["err_pol"].as_u64().unwrap()));
                    cfg_lines += &match c["stdin_pol"].as_u64().unwrap() {
                        0 => format!("    {recv}.stdin_inherit()\n"),
                        1 => format!("    {recv}.stdin_null()\n"),
                        _ => format!("    {recv}.stdin_text(\"{stdin_text}\")\n"),
                    };
                    if !use_default {
                        cfg_lines += &format!("    {recv}.timeout_ms({timeout})\n");
                    }
                    if shape == 6 {
                        src += &format!(
                            "do deep(k, n) start\n    if to say (n pass 0) start\n        return deep(k, n minus 1)\n    end\n{cfg_lines}    return k.run()\nend\nmake r get deep(c, 2)\n"
                        );
                    } else {
                        src += &format!(
                            "make jobs get [c]\ndo configure() start\n{cfg_lines}    return 1\nend\ndo caller() start\n    make jobs get [command(\"other\")]\n    make u get configure()\n    return jobs.len()\nend\nmake w get caller()\nmake r get jobs[0].run()\n"
                        );
                    }
                    src += "shout(r.success())\nshout(r.exit_code())\nshout(r.stdout())\nshout(r.stderr())\n";
                    let policy = HostPolicy { allow_process: true, process: caps };
                    let seen = seen_from_script(&pipeline::run_library(&src, true, Some(policy)));
                    let obs = hostsim::observe();
                    *sh.lock().unwrap() = (Some(seen), obs);
                    return;
                }
                // shape 3: the whole configuration happens inside a helper that works on the captured
                // builder and whose return value nobody reads
                let ind = if shape == 3 {
                    src += "do configure() start\n";
                    "  "
                } else {
                    ""
                };
                src += &format!("{ind}c.stdout_{}()\n", polname(c["out_pol"].as_u64().unwrap()));
                src += &format!("{ind}c.stderr_{}()\n", polname(c["err_pol"].as_u64().unwrap()));
                match c["stdin_pol"].as_u64().unwrap() {
                    0 => src += &format!("{ind}c.stdin_inherit()\n"),
                    1 => src += &format!("{ind}c.stdin_null()\n"),
                    _ => src += &format!("{ind}c.stdin_text(\"{stdin_text}\")\n"),
                }
                if !use_default {
                    src += &format!("{ind}c.timeout_ms({timeout})\n");
                }
                if shape == 3 {
                    src += "  return 4\nend\nmake configured get configure()\n";
                }
                if shape == 5 {
                    // a copy of the builder gets the opposite policies: builders are values, the
                    // original must not notice
                    let opposite = |p: u64| if p == 2 { "null" } else { "capture" };
                    src += &format!(
                        "make other get c\nother.stdout_{}()\nother.stderr_{}()\nother.timeout_ms(1)\n",
                        opposite(c["out_pol"].as_u64().unwrap()),
                        opposite(c["err_pol"].as_u64().unwrap())
                    );
                }
                // where the result lives between run() and its use: top level, returned from a function,
                // or assigned inside a loop body and read after the loop (frame resets in between)
                match shape {
                    1 => src += "do go(k) start\n  make t get k.run()\n  return t\nend\nmake r get go(c)\nmake pad get \"x\" add to_string(1)\n",
                    2 => src += "make holder get [0]\nmake i get 0\njasi (i small pass 1) start\n  i get i add 1\n  holder[0] get c.run()\n  make pad get \"y\" add to_string(i)\nend\nmake pad2 get \"z\" add to_string(2)\nmake r get holder[0]\n",
                    _ => src += "make r get c.run()\n",
                }
                if shape == 4 {
                    // the captured text leaves a helper function as its return value
                    src += "do out_of(k) start\n  return k.stdout()\nend\ndo err_of(k) start\n  return k.stderr()\nend\n";
                    src += "make o get out_of(r)\nmake e get err_of(r)\nmake pad3 get \"w\" add to_string(3)\n";
                    src += "shout(r.success())\nshout(r.exit_code())\nshout(o)\nshout(e)\n";
                } else {
                    src += "shout(r.success())\nshout(r.exit_code())\nshout(r.stdout())\nshout(r.stderr())\n";
                }
                let policy = HostPolicy { allow_process: true, process: caps };
                seen_from_script(&pipeline::run_library(&src, true, Some(policy)))
            };
            let obs = hostsim::observe();
            *sh.lock().unwrap() = (Some(seen), obs);
        });
        let (seen, obs) = shared.lock().unwrap().clone();
        let seen = seen.unwrap_or_else(|| Err("the run did not return".into()));
        (seen, obs, run)
    }
}

/// The history oracle (DESIGN.md 3.1 rules 1-8). `Ok(class)` = legal outcome of that class.
pub fn oracle(case: &Value, seen: &Seen, w: &WorldObs) -> Result<&'static str, (String, String)> {
    let v = |c: &str, m: String| Err((c.to_string(), m));
    let cap = case["cap"].as_u64().unwrap() as usize;
    let timeout = case["timeout"].as_u64().unwrap();
    let injected_spawn = !case["faults"]["spawn_errors"].as_array().is_none_or(Vec::is_empty);
    if w.procs.is_empty() {
        if seen.errkind == "spawn" && w.spawn_failures > 0 {
            return Ok("spawn-error");
        }
        return v("no-spawn", format!("no child was spawned, result {}", seen.raw));
    }
    if w.procs.len() > 1 {
        return v("respawn", format!("{} children spawned for one run()", w.procs.len()));
    }
    let _ = injected_spawn;
    let p = &w.procs[0];
    let captured = [case["out_pol"] == 2, case["err_pol"] == 2];
    let wrote = [&p.written[1], &p.written[2]];
    let over = [captured[0] && wrote[0].len() > cap, captured[1] && wrote[1].len() > cap];
    let bad = [
        captured[0] && std::str::from_utf8(wrote[0]).is_err(),
        captured[1] && std::str::from_utf8(wrote[1]).is_err(),
    ];
    let read_err = w.injected_read_errors > 0;
    // invariant during the run: what readers got is a prefix of what the child wrote
    for s in 1..=2 {
        if !p.written[s].starts_with(&p.delivered[s]) {
            return v("pipe-model", format!("fd{s}: delivered bytes are not a prefix of written bytes"));
        }
    }
    // rule 7: whatever the outcome, the child is not left running: it has exited, or the kill has been
    // delivered (a killed child ends at its next step; the statement does not ask that the zombie be
    // reaped, so an unreaped child is only counted, see execute)
    if p.exit.is_none() && !p.killed {
        return v("child-left-running", format!("run() returned ({}) while the child was still running and had not been killed", seen.raw));
    }
    if seen.ok {
        let Some(code) = p.exit else {
            return v("killed-but-ok", "the runner killed a live child and still returned a result".into());
        };
        if seen.code != code {
            return v("wrong-exit-code", format!("exit code {:?}, child ended with {:?}", seen.code, code));
        }
        if seen.success != (code == Some(0)) {
            return v("wrong-exit-code", format!("success={} for exit {:?}", seen.success, code));
        }
        if p.killed {
            return v("killed-but-ok", "the runner killed a live child and still returned a result".into());
        }
        for (i, got) in [&seen.out, &seen.err].iter().enumerate() {
            let name = if i == 0 { "stdout" } else { "stderr" };
            if captured[i] {
                match got {
                    Some(b) => {
                        if b.as_slice() != wrote[i].as_slice() {
                            let other = wrote[1 - i];
                            let leak = !other.is_empty() && b.iter().any(|x| other.contains(x) && !wrote[i].contains(x));
                            return v(
                                if leak { "cross-stream" } else { "truncated" },
                                format!("{name}: script saw {} bytes, child wrote {}", b.len(), wrote[i].len()),
                            );
                        }
                        if b.len() > cap {
                            return v("over-cap", format!("{name}: {} bytes returned, limit {cap}", b.len()));
                        }
                    }
                    None => return v("captured-null", format!("{name} was captured but reads as null")),
                }
            } else if got.is_some() {
                return v("uncaptured-not-null", format!("{name} was not captured but reads as a string"));
            }
        }
        // "runs past its timeout => error": decidable when time is pure discrete-event (no stalls, no
        // jitter): the wait loop samples at multiples of the poll interval and time cannot pass a
        // sample point before the loop has run there, so a child that outlives the first sample at or
        // after the deadline cannot yield a result.
        if case["pure_des"].as_bool().unwrap_or(false) {
            // the clock of the timeout starts when the child is spawned: in discrete-event time nothing
            // between the spawn and the first deadline sample may let time pass
            let start = p.spawn_at;
            let poll = case["poll"].as_u64().unwrap().max(1);
            if p.exit_at > start + timeout + poll {
                return v(
                    "deadline-ignored",
                    format!("child ran until t={} ms, timeout {timeout} ms from its spawn at t={start}, poll {poll} ms, yet run() returned a result", p.exit_at),
                );
            }
        }
        // rule 6 (no silent truncation) is implied by equality above; invalid UTF-8 cannot be Ok
        if bad[0] || bad[1] {
            return v("invalid-utf8-accepted", "child wrote invalid UTF-8 to a captured stream, run() returned a result".into());
        }
        return Ok("complete");
    }
    match seen.errkind.as_str() {
        "limit:stdout" => {
            if !over[0] {
                return v("spurious-limit", format!("limit error for stdout, child wrote {} <= {cap}", wrote[0].len()));
            }
            Ok("limit")
        }
        "limit:stderr" => {
            if !over[1] {
                return v("spurious-limit", format!("limit error for stderr, child wrote {} <= {cap}", wrote[1].len()));
            }
            Ok("limit")
        }
        "utf8:stdout" => {
            if !bad[0] {
                return v("spurious-utf8", "UTF-8 error for stdout, child wrote valid text".into());
            }
            Ok("utf8")
        }
        "utf8:stderr" => {
            if !bad[1] {
                return v("spurious-utf8", "UTF-8 error for stderr, child wrote valid text".into());
            }
            Ok("utf8")
        }
        "timeout" => {
            // a child whose script never sleeps can only run past a deadline by being kept waiting: for
            // output nobody takes (then the limit error comes first) or for the end of a standard input
            // whose text was delivered long ago. With time standing still unless everybody waits (pure
            // discrete-event runs) the second is the runner's doing.
            let sleeps = case["script"].as_array().is_some_and(|a| a.iter().any(|o| o.get("sleep").is_some()));
            if case["pure_des"].as_bool().unwrap_or(false) && !sleeps && !read_err && case["stdin_pol"] == 2 && !over[0] && !over[1] {
                let eof_seen = p.written[0].len() as u64 >= case["stdin_len"].as_u64().unwrap_or(0);
                if eof_seen {
                    return v(
                        "stdin-never-closed",
                        format!("timeout for a child that never sleeps: it had consumed all {} bytes of its standard input and was still waiting for the end of it", p.written[0].len()),
                    );
                }
            }
            if p.last_try_wait_running != Some(true) {
                return v("spurious-timeout", "timeout although the last try_wait saw the child exited".into());
            }
            match w.elapsed_reads.last() {
                Some(e) if *e >= timeout => {}
                other => {
                    return v("spurious-timeout", format!("timeout decided at elapsed {other:?} ms < {timeout} ms"));
                }
            }
            Ok("timeout")
        }
        "spawn" => {
            if read_err {
                Ok("io-error")
            } else {
                v("spurious-io-error", format!("I/O error without an injected fault: {}", seen.raw))
            }
        }
        other => v("unexpected-error", format!("{other} ({})", seen.raw)),
    }
}

/// Both captured streams run over the limit, with multi-byte text straddling it: the reader that
/// loses the race for the overflow flag returns a buffer cut inside a character (found by a
/// thorough run: 1 in 3 million of the general scenarios, hence this biased template).
fn gen_double_overflow(r: &mut Rng) -> Value {
    let cap = r.pick(&[1u64, 2, 7, 8, 64, 100]);
    let pipe_cap = r.pick(&[1u64, 7, 16, 4096]);
    let mut script = vec![];
    // stdout first gets close to the limit, stderr overflows, stdout overflows inside a character
    let near = cap.saturating_sub(r.below(3));
    let order = r.below(3);
    let o1 = json!({"out": {"len": near, "kind": r.pick(&["ascii", "multi"]), "chunk": r.pick(&[1u64, 3, 64])}});
    let e1 = json!({"err": {"len": cap + 1 + r.below(3), "kind": r.pick(&["ascii", "multi"]), "chunk": r.pick(&[1u64, 3, 64])}});
    let o2 = json!({"out": {"len": 2 + r.below(6), "kind": "multi", "chunk": r.pick(&[1u64, 100_000])}});
    match order {
        0 => script.extend([o1, e1, o2]),
        1 => script.extend([e1, o1, o2]),
        _ => script.extend([o1, o2, e1]),
    }
    if r.chance(30) {
        script.push(json!({"sleep": r.pick(&[0u64, 1, 10])}));
    }
    script.push(json!({"exit": 0}));
    json!({
        "out_pol": 2, "err_pol": 2, "stdin_pol": 1, "cap": cap, "timeout": r.pick(&[50u64, 100, 200]), "poll": r.pick(&[1u64, 10]),
        "pipe_cap": pipe_cap, "epipe_die": r.chance(50), "stdin_len": 0, "script": script,
        "faults": {}, "jitter_seed": r.next() >> 1, "mode": if r.below(8) == 0 { "direct" } else { "script" },
    })
}

fn gen_scenario(r: &mut Rng, tier: Tier) -> Value {
    if r.chance(6) {
        return gen_double_overflow(r);
    }
    let cap = r.pick(&[0u64, 1, 2, 7, 8, 64, 100, 8191, 8192, 8193, 20000]);
    let pipe_cap = r.pick(&[1u64, 7, 16, 4096, 65536]);
    let max_bytes: u64 = if pipe_cap <= 16 { 600 } else { 45_000 };
    let sz = |r: &mut Rng| -> u64 {
        let c = cap;
        let n = match r.below(9) {
            0 => 0,
            1 => c.saturating_sub(1),
            2 => c,
            3 => c + 1,
            4 => 2 * c + 3,
            5 => r.below(64),
            6 => c / 2,
            7 => c.saturating_sub(r.below(4)),
            _ => r.below(2 * c + 2),
        };
        n.min(max_bytes)
    };
    let mut script = vec![];
    let nops = 1 + r.below(if tier == Tier::Thorough { 6 } else { 5 });
    // whole seconds and more too: simulated time is free, and units/wrap-arounds live there
    let sleeps = [0u64, 1, 5, 9, 10, 11, 19, 20, 21, 50, 100, 999, 1000, 1001, 1600, 61_000];
    for _ in 0..nops {
        match r.below(14) {
            0..=4 => {
                let n = sz(r);
                let kind = match r.below(16) {
                    0 => format!("bad@{}", r.below(n.max(1))),
                    1 | 2 => "multi".into(),
                    3 => "cut".into(),
                    4 | 5 => "edge".into(),
                    _ => "ascii".to_string(),
                };
                script.push(json!({"out": {"len": n, "kind": kind, "chunk": r.pick(&[1u64, 3, 64, 4096, 100_000])}}));
            }
            5..=7 => {
                let n = sz(r);
                let kind = match r.below(16) {
                    0 => format!("bad@{}", r.below(n.max(1))),
                    1 | 2 => "multi".into(),
                    3 => "cut".into(),
                    4 | 5 => "edge".into(),
                    _ => "ascii".to_string(),
                };
                script.push(json!({"err": {"len": n, "kind": kind, "chunk": r.pick(&[1u64, 3, 64, 4096, 100_000])}}));
            }
            8 | 9 => script.push(json!({"sleep": r.pick(&sleeps)})),
            10 => script.push(json!({"drain_stdin": 0})),
            11 => script.push(json!({"read_stdin": r.pick(&[1u64, 5, 100])})),
            12 => script.push(if r.chance(50) { json!({"close_out": 0}) } else { json!({"close_err": 0}) }),
            _ => {}
        }
    }
    match r.below(12) {
        0 => script.push(json!({"sleep": 10_000_000u64})), // never exits by itself
        1 => script.push(json!({"signal": 0})),
        // "all exit codes": the conventional ones (126/127 of launchers, 128+signal) are data like any other
        _ => script.push(json!({"exit": if r.chance(25) { r.below(256) as i64 } else { r.pick(&[0i64, 0, 0, 0, 1, 2, 3, 126, 127, 128, 137, 255]) }})),
    }
    let stdin_pol = r.below(3);
    let stdin_len = if stdin_pol == 2 {
        r.pick(&[0u64, 1, 5, pipe_cap.saturating_sub(1), pipe_cap + 1, (3 * pipe_cap).min(9000)]).min(70_000)
    } else {
        0
    };
    let mut faults = json!({});
    if r.chance(30) {
        let n = r.usize(1, 4);
        faults["read_limits"] = json!((0..n).map(|_| r.pick(&[0u64, 1, 2, 7, 100, 8191])).collect::<Vec<_>>());
    }
    if r.chance(20) {
        let n = r.usize(1, 3);
        faults["write_limits"] = json!((0..n).map(|_| r.pick(&[0u64, 1, 3, 64])).collect::<Vec<_>>());
    }
    if r.chance(6) {
        faults["read_errors"] = json!([[r.range(1, 2), r.below(4), r.pick(&[libc::EIO, libc::EINTR])]]);
    }
    if r.chance(25) {
        faults["jitter"] = json!([r.pick(&[5u64, 20, 60]), r.pick(&[1u64, 3, 12])]);
    }
    let timeout = r.pick(&[1u64, 5, 10, 20, 30, 50, 100, 200, 200, 1000, 1001, 1500, 60_000]);
    // a minute of 1 ms polls is 60 000 loop iterations: keep the poll coarse there
    let poll = if timeout >= 60_000 { 10 } else { r.pick(&[1u64, 10]) };
    json!({
        "out_pol": r.pick(&[0u64, 1, 2, 2, 2]), "err_pol": r.pick(&[0u64, 1, 2, 2]), "stdin_pol": stdin_pol,
        "cap": cap, "timeout": timeout, "poll": poll,
        "pipe_cap": pipe_cap, "epipe_die": r.chance(50), "stdin_len": stdin_len, "script": script,
        "faults": faults, "jitter_seed": r.next() >> 1,
        "mode": if r.below(8) == 0 { "direct" } else { "script" },
        "script_shape": r.pick(&[0u64, 0, 1, 2, 3, 4, 5, 6, 7]),
        "default_timeout": r.chance(15),
    })
}

pub fn gen_sched(r: &mut Rng, k: u64) -> Value {
    let p_clock = [0u64, 0, 5, 30][(k % 4) as usize];
    match (k / 4) % 3 {
        0 => json!({"mode": "random", "seed": r.next() >> 1, "p_clock": p_clock, "sticky": 0}),
        1 => json!({"mode": "random", "seed": r.next() >> 1, "p_clock": p_clock, "sticky": r.pick(&[70u64, 90, 97])}),
        _ => json!({"mode": "pct", "seed": r.next() >> 1, "depth": r.range(1, 3), "p_clock": p_clock, "horizon": r.pick(&[40u64, 150, 600])}),
    }
}

impl C16 {
    fn schedules_per_scenario(tier: Tier) -> u64 {
        if tier == Tier::Thorough { 64 } else { 16 }
    }
}

impl Engine for C16 {
    fn id(&self) -> &'static str {
        "C16"
    }
    fn tag(&self) -> u64 {
        0xC16
    }
    fn profiles(&self, tier: Tier) -> Vec<&'static str> {
        if tier == Tier::Thorough { vec!["simdbg", "simrel"] } else { vec!["simrel", "simdbg"] }
    }
    fn runs(&self, tier: Tier, profile: &str) -> u64 {
        match (tier, profile) {
            (Tier::Quick, "simrel") => 24_000,
            (Tier::Quick, _) => 8_000,
            (Tier::Thorough, "simrel") => 2_400_000,
            (Tier::Thorough, _) => 600_000,
        }
    }

    fn generate(&self, seed: u64, i: u64, tier: Tier) -> Value {
        if i % 400 == 399 {
            return gen_real(&mut Rng::stream(seed, self.tag() ^ 0x4ea1, i));
        }
        // several schedules per scenario: the scenario stream depends on i / k only
        let per = Self::schedules_per_scenario(tier);
        let mut rs = Rng::stream(seed, self.tag(), i / per);
        let mut case = gen_scenario(&mut rs, tier);
        let mut rk = Rng::stream(seed, self.tag() ^ 0x5c4ed, i);
        case["sched"] = gen_sched(&mut rk, i % per);
        let pure = case["sched"]["p_clock"] == 0 && case["faults"]["jitter"].is_null();
        case["pure_des"] = json!(pure);
        case
    }

    fn execute(&self, case: &Value) -> RunResult {
        if case["kind"] == "real" {
            return exec_real(case);
        }
        let mut res = RunResult::new();
        let keep_log = case["keep_log"].as_bool().unwrap_or(false);
        let (seen, w, run) = C16::run_once(case, keep_log);
        res.sim_ms = w.now_ms;
        let mut h = fnv(0, &serde_json::to_vec(&case["script"]).unwrap());
        h = fnv_u64(h, w.trace_hash);
        res.trace_hash = h;
        res.count("scheduling_decisions", run.decisions.len() as u64);
        res.count("context_switches", hostsim::segments(&run.decisions).len() as u64);
        res.count("fault_short_reads", w.short_reads);
        res.count("fault_short_stdin_writes", w.short_writes);
        res.count("fault_read_errors", w.injected_read_errors);
        res.count("fault_clock_jitter_advances", w.jitter_advances);
        res.count("pipe_full_blockings", w.pipe_full_blocks);
        res.count("overflow_flag_accesses", w.flag_ops);
        res.count("sim_events", w.events);
        let sched_mode = case["sched"]["mode"].as_str().unwrap_or("?");
        res.count(&format!("sched_{sched_mode}"), 1);
        if case["sched"]["p_clock"].as_u64().unwrap_or(0) > 0 {
            res.count("runs_with_stalls_injected", 1);
        }
        if case["pure_des"].as_bool().unwrap_or(false) {
            res.count("runs_in_pure_discrete_event_time", 1);
        }
        let detail = |seen: &Result<Seen, String>, w: &WorldObs, run: &hostsim::HostRun| {
            let mut d = json!({
                "result": seen.as_ref().map(|s| s.raw.clone()).unwrap_or_else(|e| e.clone()),
                "decisions": if run.decisions.len() <= 200_000 { json!(run.decisions) } else { Value::Null },
                "decision_count": run.decisions.len(),
                "context_switches": hostsim::segments(&run.decisions).len().saturating_sub(1),
                "replay_diverged": run.diverged,
                "sim_now_ms": w.now_ms,
            });
            if !w.log.is_empty() {
                d["history"] = json!(hostsim::render_log(&w.log));
            }
            if let Some(p) = w.procs.first() {
                d["child"] = json!({"wrote_stdout": p.written[1].len(), "wrote_stderr": p.written[2].len(),
                    "exit": format!("{:?}", p.exit), "killed": p.killed, "reaped": p.reaped,
                    "stdin_consumed": p.written[0].len(), "stdin_sent": p.stdin_sent.len()});
            }
            d
        };
        if let Some(m) = &run.panic {
            let first = m.lines().next().unwrap_or("").to_string();
            res.detail = detail(&seen, &w, &run);
            let class = if m.contains("exceeded max_steps") || m.contains("max_steps") {
                "no-progress"
            } else if m.contains("deadlock") {
                "deadlock"
            } else {
                "panic"
            };
            return res.violation(class, first);
        }
        let seen = match seen {
            Ok(s) => s,
            Err(m) => {
                res.detail = detail(&Err(m.clone()), &w, &run);
                return res.violation("harness", m);
            }
        };
        match oracle(case, &seen, &w) {
            Ok(class) => {
                res.count(&format!("outcome_{class}"), 1);
                let p = &w.procs.first();
                let wrote_captured = p.is_some_and(|p| {
                    (case["out_pol"] == 2 && !p.written[1].is_empty()) || (case["err_pol"] == 2 && !p.written[2].is_empty())
                });
                res.nontrivial = wrote_captured || class != "complete";
                res.count("info_child_not_reaped_at_return", u64::from(w.procs.first().is_some_and(|p| !p.reaped)));
                // probes for the races the property is about
                if let Some(p) = p {
                    let cap = case["cap"].as_u64().unwrap() as usize;
                    let over = (case["out_pol"] == 2 && p.written[1].len() > cap) || (case["err_pol"] == 2 && p.written[2].len() > cap);
                    if over && p.exit.is_some() && !p.killed {
                        res.count("probe_overflow_and_child_exited_by_itself", 1);
                    }
                    if over && p.killed {
                        res.count("probe_overflow_and_child_killed", 1);
                    }
                    if class == "timeout" && !p.killed {
                        res.count("probe_timeout_but_child_exited_before_kill", 1);
                    }
                    if class == "complete" && w.elapsed_reads.last().is_some_and(|e| *e >= case["timeout"].as_u64().unwrap()) {
                        res.count("probe_complete_although_deadline_passed", 1);
                    }
                }
                res
            }
            Err((class, msg)) => {
                res.detail = detail(&Ok(seen), &w, &run);
                res.violation(&class, msg)
            }
        }
    }

    fn concretise(&self, case: &Value, r: &RunResult, final_: bool) -> Value {
        if case["kind"] == "real" {
            return case.clone();
        }
        crate::hostsim::concretise_schedule(case, r, final_)
    }

    fn shrink(&self, case: &Value) -> Vec<Value> {
        let mut v = vec![];
        let set = |k: &str, x: Value| {
            let mut c = case.clone();
            c[k] = x;
            c
        };
        if case["kind"] == "real" {
            return v;
        }
        let script = case["script"].as_array().unwrap();
        for i in 0..script.len() {
            if script.len() > 1 {
                let mut s = script.clone();
                s.remove(i);
                v.push(set("script", json!(s)));
            }
        }
        for i in 0..script.len() {
            let (k, x) = script[i].as_object().unwrap().iter().next().unwrap();
            if k == "out" || k == "err" {
                let len = x["len"].as_u64().unwrap();
                for nl in [0, len / 2, len.saturating_sub(1)] {
                    if nl < len {
                        let mut s = script.clone();
                        s[i][k]["len"] = json!(nl);
                        v.push(set("script", json!(s)));
                    }
                }
                if x["kind"] != "ascii" {
                    let mut s = script.clone();
                    s[i][k]["kind"] = json!("ascii");
                    v.push(set("script", json!(s)));
                }
                if x["chunk"].as_u64().unwrap() != 100_000 {
                    let mut s = script.clone();
                    s[i][k]["chunk"] = json!(100_000);
                    v.push(set("script", json!(s)));
                }
            }
            if k == "sleep" && x.as_u64().unwrap() > 0 {
                for ns in [0, x.as_u64().unwrap() / 2] {
                    let mut s = script.clone();
                    s[i] = json!({"sleep": ns});
                    v.push(set("script", json!(s)));
                }
            }
        }
        if case["faults"].as_object().is_some_and(|o| !o.is_empty()) {
            v.push(set("faults", json!({})));
            for k in case["faults"].as_object().unwrap().keys() {

                let mut f = case["faults"].clone();
                f.as_object_mut().unwrap().remove(k);
                v.push(set("faults", f));
            }
        }
        if case["stdin_len"].as_u64().unwrap_or(0) > 0 {
            v.push(set("stdin_len", json!(0)));
        }
        if case["stdin_pol"] != 1 {
            v.push(set("stdin_pol", json!(1)));
        }
        if case["mode"] != "direct" {
            v.push(set("mode", json!("direct")));
        }
        if case["script_shape"].as_u64().unwrap_or(0) != 0 {
            v.push(set("script_shape", json!(0)));
        }
        if case["default_timeout"] == true {
            v.push(set("default_timeout", json!(false)));
        }
        let cap = case["cap"].as_u64().unwrap();
        for nc in [0, cap / 2, cap.saturating_sub(1)] {
            if nc < cap {
                v.push(set("cap", json!(nc)));
            }
        }
        if case["pipe_cap"] != 65536 {
            v.push(set("pipe_cap", json!(65536)));
        }
        for (k, simple) in [("out_pol", 1u64), ("err_pol", 1u64)] {
            if case[k] != simple {
                v.push(set(k, json!(simple)));
            }
        }
        // schedule: delete runs of segments (the fallback policy fills the gap)
        if case["sched"]["mode"] == "segments" {
            let segs = case["sched"]["segs"].as_array().unwrap();
            v.extend(crate::hostsim::segment_deletions(segs).into_iter().map(|s| set("sched", json!({"mode": "segments", "segs": s}))));
            // last resort, a bounded number of times: look for the same violation under fresh, very
            // sticky schedules (few context switches by construction)
            let left = case["resample_left"].as_u64().unwrap_or(3);
            if segs.len() > 24 && left > 0 {
                let mut r = Rng(fnv(0, &serde_json::to_vec(&case["sched"]).unwrap()));
                for _ in 0..24 {
                    let mut c = set("sched", json!({"mode": "random", "seed": r.next() >> 1, "p_clock": case["sched_p_clock"].as_u64().unwrap_or(0), "sticky": r.pick(&[95u64, 98, 99])}));
                    c["resample_left"] = json!(left - 1);
                    v.push(c);
                }
            }
        }
        v
    }

    fn sample(&self, case: &Value) -> Value {
        case.clone()
    }

    fn rule(&self) -> String {
        "case = scenario (capture limit, stdout/stderr/stdin policies, child script of writes/sleeps/closes/stdin reads/exit, \
         pipe capacity, chunk sizes, timeout, poll interval, EPIPE reaction, fault plan: short reads, short stdin writes, \
         read errors, clock jitter) x schedule (seeded uniform / sticky / PCT-style scheduler over runner, clock, child, \
         stdin writer and two reader tasks; stalls injected by letting the clock run while tasks are runnable). \
         16 (quick) or 64 (thorough) schedules per scenario. Non-trivial = the child wrote to a captured stream or the run \
         ended in an error. Distinct = hash of the child script and the world's full event history \
         (actor, operation, operands, simulated time)."
            .into()
    }
    fn assumptions(&self) -> Vec<String> {
        vec![
            "std::process::{Command,Child,pipes}, std::thread, std::time::Instant and the AtomicU8 flag are replaced by the simulated host (sim/shim/host.rs); the OS itself is a model written for this check".into(),
            "shuttle models every atomic access as sequentially consistent; weak-memory effects on the overflow flag are out of reach".into(),
            "grandchildren that keep a captured pipe open, waitpid/kill failures are not modelled (outside the statement)".into(),
            "after an injected read error any Err outcome is accepted; an Ok outcome must still be complete".into(),
        ]
    }
    fn components(&self) -> Value {
        json!({"real": ["src/sys/process_common.rs (run_host_process, wait_for_child, read_captured_stream, join_capture, terminate_child, writer/reader threads)",
                        "src/process.rs validate", "runtime dispatch eval_process_command_call / eval_process_result_call, lexer/parser/resolver (script mode)"],
               "stub": ["child process, pipes, kill/wait/try_wait, clock, thread scheduling (simulated host + own shuttle Scheduler)"]})
    }
}

// ------------------------------------------------------------------ real operating system

fn gen_real(r: &mut Rng) -> Value {
    // outcomes that do not depend on timing margins
    let what = r.pick(&["complete", "complete", "complete", "limit", "utf8", "timeout", "nonzero"]);
    let n1 = r.pick(&[0u64, 1, 100, 4096, 65_536, 65_537, 200_000]);
    let n2 = r.pick(&[0u64, 1, 7, 70_000]);
    json!({"kind": "real", "what": what, "out": n1, "err": n2,
           "out_kind": r.pick(&["a", "m"]), "err_pol": r.pick(&["capture", "null"]),
           "exit": r.pick(&[0u64, 0, 3, 255]), "stdin": r.pick(&[0u64, 0, 10, 100_000])})
}

/// The un-hooked `naija` binary captures the output of the real helper child through real pipes
/// and threads. Validates the simulated host's model (EOF on exit, kill closes pipes, ...).
fn exec_real(case: &Value) -> RunResult {
    let mut res = RunResult::new();
    res.trace_hash = fnv(0, &serde_json::to_vec(case).unwrap());
    res.nontrivial = true;
    res.count("real_os_cross_checks", 1);
    let helper = match realos::realchild_bin() {
        Ok(h) => h,
        Err(m) => return res.violation("harness", m),
    };
    let what = case["what"].as_str().unwrap_or("complete");
    res.count(&format!("real_{what}"), 1);
    let dir = realos::tmp_dir();
    let marker = format!("{dir}/pid.marker");
    let _ = std::fs::remove_file(&marker);
    let (n1, n2) = (case["out"].as_u64().unwrap() as usize, case["err"].as_u64().unwrap() as usize);
    let okind = case["out_kind"].as_str().unwrap_or("a");
    let exit = case["exit"].as_u64().unwrap_or(0);
    let mut ops: Vec<String> = vec![];
    if case["stdin"].as_u64().unwrap_or(0) > 0 {
        ops.push("drain".into());
    }
    let mut want_out = stream_bytes(1, 0, n1, if okind == "m" { "multi" } else { "ascii" });
    match what {
        "limit" => {
            // more than the default 1 MiB capture limit
            ops.push(format!("out:{}:a", (1 << 20) + 1 + n1));
            ops.push("sleep:20000".into());
        }
        "utf8" => {
            ops.push(format!("out:{}:b", n1.max(1)));
        }
        "timeout" => {
            ops.push(format!("out:{n1}:{okind}"));
            ops.push("sleep:30000".into());
        }
        _ => {
            ops.push(format!("out:{n1}:{okind}"));
            ops.push(format!("err:{n2}:a"));
            ops.push(format!("exit:{}", if what == "nonzero" { exit.max(1) } else { 0 }));
        }
    }
    if what == "limit" || what == "utf8" {
        want_out.clear();
    }
    let mut src = format!("make c get command({})\nc.arg(\"play\")\n", crate::c15::strlit(&helper));
    for o in &ops {
        src += &format!("c.arg(\"{o}\")\n");
    }
    src += &format!("c.env(\"VK_MARKER\", {})\n", crate::c15::strlit(&marker));
    src += "c.stdout_capture()\n";
    src += &format!("c.stderr_{}()\n", case["err_pol"].as_str().unwrap_or("null"));
    let stdin_n = case["stdin"].as_u64().unwrap_or(0) as usize;
    if stdin_n > 0 {
        src += &format!("c.stdin_text(\"{}\")\n", "i".repeat(stdin_n));
    } else {
        src += "c.stdin_null()\n";
    }
    if what == "timeout" {
        src += "c.timeout_ms(150)\n";
    }
    src += "make r get c.run()\nshout(r.exit_code())\nshout(r.stderr())\nshout(r.stdout())\n";
    let t0 = std::time::Instant::now();
    let run = match realos::run_naija(&src, None) {
        Ok(r) => r,
        Err(m) => return res.violation("harness", m),
    };
    let took = t0.elapsed();
    let out = run.stdout;
    let text = String::from_utf8_lossy(&out).into_owned();
    // the helper sleeps 20-30 s after its output in these two cases: a run() that takes anywhere
    // near that long did not kill it (150 ms timeout / immediate overflow; the margin is > 60x)
    if (what == "timeout" || what == "limit") && took.as_secs() >= 10 {
        return res.violation("child-left-running", format!("real OS ({what}): run() returned after {:.1} s, i.e. only once the child ended by itself", took.as_secs_f64()));
    }
    // whatever the outcome: nothing of the child may be left running (live members of the binary's
    // process group at the moment it returned; the harness has killed them since)
    if !run.leftover.is_empty() {
        return res.violation("child-left-running", format!("real OS: {} process(es) of the command still alive after naija returned ({what})", run.leftover.len()));
    }
    if run.code == -9 {
        return res.violation("no-progress", format!("real OS ({what}): naija did not finish within 90 s"));
    }
    let expect_err = match what {
        "limit" => Some("Process output limit exceeded"),
        "utf8" => Some("Process output no be valid UTF-8"),
        "timeout" => Some("Process timeout"),
        _ => None,
    };
    if let Some(e) = expect_err {
        if run.code == 0 || !text.contains(e) {
            return res.violation("real-wrong-outcome", format!("real OS ({what}): expected `{e}`, naija exited {} with {:?}", run.code, text.chars().take(200).collect::<String>()));
        }
        return res;
    }
    if run.code != 0 {
        return res.violation("real-wrong-outcome", format!("real OS ({what}): naija exited {} with {:?}", run.code, text.chars().take(300).collect::<String>()));
    }
    let want_code = if what == "nonzero" { exit.max(1) } else { 0 };
    let want_err: Vec<u8> = if case["err_pol"] == "capture" { stream_bytes(2, 0, n2, "ascii") } else { b"null".to_vec() };
    let mut want: Vec<u8> = format!("{want_code}\n").into_bytes();
    want.extend_from_slice(&want_err);
    want.push(b'\n');
    want.extend_from_slice(&want_out);
    want.push(b'\n');
    if out != want {
        let k = out.iter().zip(want.iter()).position(|(a, b)| a != b).unwrap_or(out.len().min(want.len()));
        return res.violation("truncated", format!("real OS ({what}): naija printed {} bytes, expected {} (first difference at byte {k})", out.len(), want.len()));
    }
    res
}
