//! C17 `stdinsim`: `read_line` over a simulated fd 0 whose bytes arrive in seeded pieces.
use naijascript::arena::{Arena, ArenaCow};
use naijascript::runtime::Value as NsValue;
use naijascript::sys::Stdin;
use naijascript::sys::verif_shim::fake_libc::{self, StdinSim};
use serde_json::{Value, json};

use crate::common::*;
use crate::pipeline;
use crate::realos;
use crate::rng::{Rng, fnv, fnv_u64};

pub struct C17;

const KINDS: [&str; 5] = ["ascii", "two", "three", "four", "mixed"];

/// Deterministic content of line `k`: a recognisable prefix, then filler of the requested
/// kind, exactly `len` bytes, no CR or LF.
pub fn line_bytes(k: usize, len: usize, kind: &str) -> Vec<u8> {
    let mut s = String::new();
    let prefix = format!("L{k}:");
    for ch in prefix.chars() {
        if s.len() + ch.len_utf8() <= len {
            s.push(ch);
        }
    }
    let fill: &[char] = match kind {
        "two" => &['é', 'ß'],
        "three" => &['€', 'ナ'],
        "four" => &['😀', '𝄞'],
        "mixed" => &['a', 'é', '€', '😀', 'z'],
        _ => &['x', 'y', 'z', 'w'],
    };
    let mut j = k;
    loop {
        let ch = fill[j % fill.len()];
        j += 1;
        if s.len() + ch.len_utf8() > len {
            break;
        }
        s.push(ch);
    }
    while s.len() < len {
        s.push('_');
    }
    let mut b = s.into_bytes();
    if kind == "bad" && len >= 1 {
        // not UTF-8: a Latin-1 letter in an otherwise ASCII line (kind "bad" has ASCII filler)
        b[len / 2] = 0xE9;
    }
    b
}

pub fn text_of(case: &Value) -> Vec<u8> {
    let mut t = Vec::new();
    let lines = case["lines"].as_array().unwrap();
    // (shrinking may leave fewer lines than the sentinel's position: it then goes last)
    let stop_at = case["stop_at"].as_u64().map(|x| (x as usize).min(lines.len()));
    for (k, l) in lines.iter().enumerate() {
        if stop_at == Some(k) {
            // the sentinel line of mode "cond" (no generated line can equal it: they start with "L")
            t.extend_from_slice(b"STOP\n");
        }
        let mut lb = line_bytes(k, l["len"].as_u64().unwrap() as usize, l["kind"].as_str().unwrap());
        if case["cr"] == "inner" && lb.len() > 4 {
            // a CR in the middle of the line (ASCII position: the prefix "L<k>:" is ASCII)
            lb[2] = b'\r';
        }
        t.extend(lb);
        if k + 1 < lines.len() || case["final_newline"].as_bool().unwrap() {
            if case["cr"] == "crlf" {
                t.push(b'\r');
            }
            t.push(b'\n');
        }
    }
    if stop_at == Some(lines.len()) {
        if t.last().is_some_and(|b| *b != b'\n') {
            t.push(b'\n');
        }
        t.extend_from_slice(b"STOP\n");
    }
    t
}

/// Position (line index) of the sentinel of mode "cond".
fn stop_line(case: &Value) -> usize {
    (case["stop_at"].as_u64().unwrap_or(0) as usize).min(case["lines"].as_array().map_or(0, Vec::len))
}

fn gen_len(r: &mut Rng, tier: Tier) -> usize {
    let big: &[usize] = if tier == Tier::Thorough {
        &[8191, 8192, 8193, 16383, 16384, 16385, 32768, 32769, 70000, 131073]
    } else {
        &[8191, 8192, 8193, 16383, 16384, 16385, 20000]
    };
    match r.below(12) {
        0 => 0,
        1 => 1,
        2 => 2,
        3 => 100,
        4 | 5 => r.pick(big),
        6 => r.usize(8000, 8400),
        7 => r.usize(0, 40),
        _ => r.usize(0, 300),
    }
}

/// `read_line` may keep bytes that arrived after a newline for its next call, and that state is
/// process-wide. A run that ended early (injected error) can leave some behind; every run must
/// start from a clean slate, so read lines from an empty input until the code really asks the
/// (simulated) kernel again, which it only does once nothing is left over.
pub fn drain_carry_over() {
    fake_libc::install_stdin(StdinSim::default());
    let arena = Arena::new(8 << 20).unwrap();
    let prompt = NsValue::Str(ArenaCow::borrowed(""));
    for _ in 0..100_000 {
        let _ = <naijascript::sys::stdin as Stdin>::read_line(&prompt, &arena);
        let asked = fake_libc::STDIN.with(|s| s.borrow().as_ref().map_or(1, |x| x.calls));
        if asked > 0 {
            break;
        }
    }
    fake_libc::take_stdin();
}

impl Engine for C17 {
    fn id(&self) -> &'static str {
        "C17"
    }
    fn tag(&self) -> u64 {
        0xC17
    }
    fn profiles(&self, tier: Tier) -> Vec<&'static str> {
        if tier == Tier::Thorough { vec!["simdbg", "simrel"] } else { vec!["simdbg", "simrel"] }
    }
    fn runs(&self, tier: Tier, profile: &str) -> u64 {
        match (tier, profile) {
            (Tier::Quick, "simdbg") => 6_000,
            (Tier::Quick, _) => 6_000,
            (Tier::Thorough, "simdbg") => 400_000,
            (Tier::Thorough, _) => 600_000,
        }
    }

    fn generate(&self, seed: u64, i: u64, tier: Tier) -> Value {
        let mut r = Rng::stream(seed, self.tag(), i);
        let nlines = match r.below(10) {
            0 => 0,
            1 => 1,
            2..=6 => r.usize(2, 6),
            _ => r.usize(2, 40),
        };
        let mut lines = vec![];
        let mut total = 0usize;
        for _ in 0..nlines {
            let mut len = gen_len(&mut r, tier);
            if total + len > 300_000 {
                len = r.usize(0, 50);
            }
            total += len + 1;
            lines.push(json!({"len": len, "kind": r.pick(&KINDS)}));
        }
        let final_newline = nlines > 0 && r.chance(60);
        let mut case = json!({"lines": lines, "final_newline": final_newline});
        let text = text_of(&case);
        // delivery plan
        let nl: Vec<usize> =
            text.iter().enumerate().filter(|(_, b)| **b == b'\n').map(|(p, _)| p).collect();
        let mut plan: Vec<usize> = vec![];
        let style = r.below(9);
        match style {
            0 => plan.push(usize::MAX >> 1), // everything the caller asks for (pipe or file)
            1 => {
                // one line per read (terminal)
                let mut prev = 0;
                for p in &nl {
                    plan.push(p + 1 - prev);
                    prev = p + 1;
                }
                plan.push(usize::MAX >> 1);
            }
            2 => plan.push(1),
            3 => plan.push(r.pick(&[2usize, 3, 7, 64, 4096, 8191, 8192, 8193])),
            4 | 5 => {
                // random sizes
                let hi = r.pick(&[4usize, 100, 5000, 20000]);
                for _ in 0..r.usize(1, 200) {
                    plan.push(r.usize(1, hi));
                }
            }
            6 | 7 => {
                // pieces that end exactly on / one before / one after each newline
                let mut prev = 0usize;
                for p in &nl {
                    let target = match r.below(4) {
                        0 => *p,          // ends one before the newline
                        1 => p + 1,       // ends on the newline
                        2 => p + 2,       // one byte of the next line too
                        _ => p + 1 + r.usize(0, 30),
                    };
                    if target > prev {
                        plan.push(target - prev);
                        prev = target;
                    }
                }
                plan.push(r.pick(&[1usize, 5, usize::MAX >> 1]));
            }
            _ => {
                // pieces aligned around 8 KiB buffer boundaries
                for _ in 0..r.usize(1, 40) {
                    plan.push(r.pick(&[8191usize, 8192, 8193, 1, 16384, 4096]));
                }
            }
        }
        let calls = nlines + 3;
        let mode = match r.below(18) {
            0 | 1 => "direct",
            2 | 3 => "loop",
            4 => "array",
            // the first two lines are read by calls whose result is never used
            5 => "skip",
            // read_line wrapped in a user function that returns its result
            6 => "wrapper",
            // read_line behind two levels of user functions; the first three results are never used
            7 => "wrapper2",
            // a filtering loop that skips most lines with `next`, on a small frame arena
            8 | 9 => "filter",
            // read_line inside the loop condition: the loop runs until a sentinel line arrives
            10 => "cond",
            // the line-reading helper is declared at the bottom of a function, below its `return`
            // (definitions are visible throughout their block)
            11 => "hoisted",
            // read_line on the right-hand side of `and` / `or`: it runs only when the left side leaves
            // the answer open
            12 => "shortcircuit",
            // the reading function is one of four that call each other in a ring; the ring is entered by a
            // call whose result nobody reads
            13 => "cycle4",
            // many long lines through a function that returns them; only their lengths are kept
            14 => "wrapped_many",
            _ => "straight",
        };
        if mode == "wrapped_many" {
            let n = r.pick(&[1500usize, 2200]);
            let lines: Vec<Value> = (0..n).map(|_| json!({"len": r.usize(3000, 5000), "kind": "ascii"})).collect();
            case["lines"] = json!(lines);
            case["final_newline"] = json!(true);
            case["frame_kib"] = json!(1024);
        }
        if mode == "filter" || mode == "cond" {
            // many short lines: what a skipped iteration leaves behind must not add up
            let n = r.pick(&[150usize, 400, 1500]) + r.usize(0, 30);
            let lines: Vec<Value> = (0..n).map(|_| json!({"len": r.usize(0, 120), "kind": r.pick(&KINDS)})).collect();
            case["lines"] = json!(lines);
            case["final_newline"] = json!(r.chance(60));
            case["keep_every"] = json!(r.pick(&[1u64, 2, 3, 7, 50]));
            // generous against the 8 KiB buffer of one call, tiny against what hundreds of skipped
            // iterations would pile up if they did not give their memory back
            case["frame_kib"] = json!(r.pick(&[512u64, 1024]));
        }
        if mode == "cond" {
            // the sentinel sits a few lines before the end
            let n = case["lines"].as_array().unwrap().len();
            case["stop_at"] = json!(n - r.usize(1, 5));
        }
        let calls = if mode == "filter" || mode == "cond" || mode == "wrapped_many" { case["lines"].as_array().unwrap().len() + 3 } else { calls };
        let mut errors = vec![];
        if r.chance(8) {
            let errno = r.pick(&[libc::EIO, libc::EINTR, libc::EAGAIN]);
            errors.push(json!([r.usize(0, 12), errno]));
        }
        case["plan"] = json!(plan);
        case["calls"] = json!(calls);
        case["mode"] = json!(mode);
        case["errors"] = json!(errors);
        if i % 10 == 3 {
            // texts with carriage returns: whether CR belongs to the terminator is not stated, so the
            // only demand is that the result does not depend on the chunking (see execute)
            case["cr"] = json!(r.pick(&["crlf", "crlf", "inner"]));
            case["mode"] = json!("direct");
            case["errors"] = json!([]);
        }
        if i % 97 == 50 {
            // a line of a megabyte and more, between two short ones, delivered in large pieces
            let huge = r.pick(&[(1usize << 20) - 1, 1 << 20, (1 << 20) + 1, 1_572_864, (2 << 20) + 5]);
            case["lines"] = json!([{"len": r.usize(0, 20), "kind": "ascii"}, {"len": huge, "kind": r.pick(&["ascii", "mixed"])}, {"len": r.usize(0, 20), "kind": "two"}]);
            case["final_newline"] = json!(r.chance(50));
            case["plan"] = json!(match r.below(3) {
                0 => vec![usize::MAX >> 1],
                1 => vec![65_536usize],
                _ => vec![8192usize, 100_000, 8191],
            });
            case["calls"] = json!(6);
            case["mode"] = json!(r.pick(&["direct", "loop", "straight"]));
            case["errors"] = json!([]);
            case.as_object_mut().unwrap().remove("cr");
            case.as_object_mut().unwrap().remove("stop_at");
        }
        if i % 53 == 7 && i % 200 != 199 && !case["lines"].as_array().unwrap().is_empty() {
            // one line that is not valid UTF-8 (a text file in a legacy encoding): that call may fail or
            // return some valid replacement text, but never a string that is not UTF-8, and the
            // interpreter must survive it
            let n = case["lines"].as_array().unwrap().len();
            let k = r.usize(0, n - 1);
            let len = case["lines"][k]["len"].as_u64().unwrap().clamp(1, 20_000);
            case["lines"][k] = json!({"len": len, "kind": "bad"});
            case["mode"] = json!(r.pick(&["direct", "straight", "loop"]));
            case["calls"] = json!(n + 3);
            case["errors"] = json!([]);
            case.as_object_mut().unwrap().remove("cr");
            case.as_object_mut().unwrap().remove("stop_at");
        }
        if i % 200 == 199 {
            // the same input through a real pipe into the real binary
            case["mode"] = json!("real");
            case["errors"] = json!([]);
            case["pauses"] = json!((0..8).map(|_| r.pick(&[0u64, 0, 1, 3])).collect::<Vec<_>>());
        }
        case
    }

    fn execute(&self, case: &Value) -> RunResult {
        let mut res = RunResult::new();
        if case["mode"] == "real" {
            return exec_real(case);
        }
        // once per process, before anything else has read a line: the very first call is a call like
        // any other (first line starting with U+FEFF, which a text-file reader might be tempted to eat)
        static FIRST_CALL_PROBED: std::sync::atomic::AtomicBool = std::sync::atomic::AtomicBool::new(false);
        if !FIRST_CALL_PROBED.swap(true, std::sync::atomic::Ordering::SeqCst) {
            let text = "\u{feff}first line\n\u{feff}second\n";
            fake_libc::install_stdin(StdinSim { data: text.as_bytes().to_vec(), ..StdinSim::default() });
            let out = pipeline::run_library("shout(read_line(\"\"))\nshout(read_line(\"\"))\n", true, None);
            fake_libc::take_stdin();
            drain_carry_over();
            let want: Vec<Vec<u8>> = text.lines().map(|l| l.as_bytes().to_vec()).collect();
            match out {
                pipeline::Outcome::Ran { out, err } if err.is_empty() && out == want => {}
                other => {
                    return res.violation("wrong-line", format!("the first read_line calls of the process, input {text:?}: {other:?}"));
                }
            }
        }
        drain_carry_over();
        let text = text_of(case);
        let calls = case["calls"].as_u64().unwrap() as usize;
        let mode = case["mode"].as_str().unwrap();
        // mode "cond" runs on a small frame arena: only a handful of straight-line calls after the loop
        // (top-level statements are not iterations; what they allocate stays until the program ends)
        let calls = if mode == "cond" { (stop_line(case) + 1) + calls.saturating_sub(stop_line(case) + 1).min(8) } else { calls };
        let plan: Vec<usize> =
            case["plan"].as_array().unwrap().iter().map(|x| x.as_u64().unwrap() as usize).collect();
        let errors: Vec<(usize, i32)> = case["errors"]
            .as_array()
            .map(|a| {
                a.iter()
                    .map(|e| (e[0].as_u64().unwrap() as usize, e[1].as_i64().unwrap() as i32))
                    .collect()
            })
            .unwrap_or_default();
        fake_libc::install_stdin(StdinSim {
            data: text.clone(),
            plan,
            errors: errors.clone(),
            ..StdinSim::default()
        });

        // what the calls must return
        let mut expected: Vec<Vec<u8>> = text.split(|b| *b == b'\n').map(<[u8]>::to_vec).collect();
        while expected.len() < calls {
            expected.push(vec![]);
        }

        // observed: Ok(line bytes) per call, then possibly an error
        let mut got: Vec<Vec<u8>> = vec![];
        let mut after: Vec<Vec<u8>> = vec![];
        let mut failed: Option<String> = None;
        match mode {
            "direct" => {
                let arena = Arena::new(64 << 20).unwrap();
                let prompt = NsValue::Str(ArenaCow::borrowed(""));
                let mut k = 0;
                while k < calls {
                    k += 1;
                    match <naijascript::sys::stdin as Stdin>::read_line(&prompt, &arena) {
                        Ok(s) => {
                            if failed.is_some() {
                                after.push(s.as_bytes().to_vec());
                            } else {
                                got.push(s.as_bytes().to_vec());
                            }
                        }
                        Err(e) => {
                            if failed.is_some() {
                                break;
                            }
                            failed = Some(format!("{e}"));
                            // a caller may retry after EAGAIN / EINTR; after a hard error it would not
                            let retryable = matches!(e.raw_os_error(), Some(libc::EAGAIN | libc::EINTR));
                            if !retryable {
                                break;
                            }
                        }
                    }
                }
            }
            _ => {
                let src = match mode {
                    "loop" => format!(
                        "make i get 0 jasi (i small pass {calls}) start make s get read_line(\"\") shout(s) i get i add 1 end"
                    ),
                    "array" => format!(
                        "make a get [] make i get 0 jasi (i small pass {calls}) start a.push(read_line(\"\")) i get i add 1 end \
                         make j get 0 jasi (j small pass {calls}) start shout(a[j]) j get j add 1 end"
                    ),
                    "skip" if calls >= 3 => format!(
                        "make header get read_line(\"\").trim()\nmake second get read_line(\"\")\n{}",
                        "shout(read_line(\"\"))\n".repeat(calls - 2)
                    ),
                    "wrapper" if calls >= 2 => format!(
                        "do next_line() start\n  return read_line(\"\")\nend\nmake pair get [next_line(), next_line()]\nshout(pair[0])\nshout(pair[1])\n{}",
                        "shout(next_line())\n".repeat(calls - 2)
                    ),
                    "wrapper2" if calls >= 4 => format!(
                        "do inner() start\n  return read_line(\"\")\nend\ndo outer() start\n  return inner()\nend\n\
                         make h1 get outer()\nmake h2 get inner()\nmake h3 get outer().len()\n{}",
                        "shout(outer())\n".repeat(calls - 3)
                    ),
                    "filter" => format!(
                        "make i get 0\njasi (i small pass {calls}) start\n  i get i add 1\n  make line get read_line(\"\")\n  \
                         if to say ((i mod {keep}) pass 0) start\n    next\n  end\n  shout(line)\nend\n",
                        keep = case["keep_every"].as_u64().unwrap_or(1)
                    ),
                    "hoisted" => format!(
                        "do main() start\n{}    return 0\n\n    do next_line() start\n        return read_line(\"\")\n    end\nend\nmain()\n",
                        "    shout(next_line())\n".repeat(calls)
                    ),
                    "cycle4" if calls >= 3 => format!(
                        "do ra(n) start\n    if to say (n small pass 1) start\n        return 0\n    end\n    return rb(n)\nend\n\
                         do rb(n) start\n    return rc(n)\nend\ndo rc(n) start\n    return rd(n)\nend\n\
                         do rd(n) start\n    make l get read_line(\"\")\n    return ra(n minus 1)\nend\n\
                         make skipped get ra(2)\n{}",
                        "shout(read_line(\"\"))\n".repeat(calls - 2)
                    ),
                    "wrapped_many" => format!(
                        "do next_line() start\n    return read_line(\"\")\nend\nmake i get 0\njasi (i small pass {calls}) start\n    i get i add 1\n    shout(next_line().len())\nend\n"
                    ),
                    "shortcircuit" if calls >= 2 => format!(
                        "make i get 0\ndo more() start\n    shout(read_line(\"\"))\n    return true\nend\n\
                         jasi (i small pass {k} and more()) start\n    i get i add 1\nend\n\
                         if to say ((1 na 1) or more()) start\n    i get i add 1\nend\n{}",
                        "shout(read_line(\"\"))\n".repeat(calls - (calls - 1).min(5)),
                        k = (calls - 1).min(5)
                    ),
                    "cond" => {
                        let k = stop_line(case);
                        format!(
                            "make n get 0\njasi (not (read_line(\"\") na \"STOP\")) start\n  n get n add 1\nend\nshout(n)\n{}",
                            "shout(read_line(\"\"))\n".repeat(calls.saturating_sub(k + 1))
                        )
                    }
                    _ => "shout(read_line(\"\"))\n".repeat(calls),
                };
                let skipped = match mode {
                    "cycle4" if calls >= 3 => 2,
                    "skip" if calls >= 3 => 2,
                    "wrapper2" if calls >= 4 => 3,
                    _ => 0,
                };
                let out = if mode == "filter" || mode == "cond" || mode == "wrapped_many" {
                    // the embedder's arena sizes are a tuning knob; a loop iteration must give back what it took
                    // (the persistent arena too: 6 MiB hold the pools, the program and every printed line many times over)
                    pipeline::run_library_caps(&src, true, None, 6 << 20, (case["frame_kib"].as_u64().unwrap_or(256) as usize) << 10)
                } else {
                    pipeline::run_library(&src, true, None)
                };
                match out {
                    pipeline::Outcome::Rejected(m) => {
                        fake_libc::take_stdin();
                        return res.violation("harness", format!("script rejected: {m}"));
                    }
                    pipeline::Outcome::Ran { out, err } => {
                        // lines consumed by the unused calls are not printed: take them as read
                        got = expected.iter().take(skipped).cloned().collect();
                        if mode == "filter" {
                            // the loop prints every keep-th line it read; the others count as read correctly
                            let keep = case["keep_every"].as_u64().unwrap_or(1) as usize;
                            let mut printed = out.into_iter();
                            for k in 0..calls {
                                if (k + 1) % keep == 0 {
                                    match printed.next() {
                                        Some(l) => got.push(l),
                                        None => break,
                                    }
                                } else {
                                    got.push(expected[k].clone());
                                }
                            }
                            if err.is_empty() && printed.next().is_some() {
                                fake_libc::take_stdin();
                                return res.violation("wrong-line", "the filtering loop printed more lines than it kept".into());
                            }
                        } else if mode == "wrapped_many" {
                            // only the lengths were printed (ASCII lines: characters = bytes)
                            for (k, l) in out.into_iter().enumerate() {
                                let want = expected.get(k).map_or(0, Vec::len).to_string();
                                if l != want.as_bytes() {
                                    fake_libc::take_stdin();
                                    return res.violation("wrong-line", format!("call {k}: the line has {} characters, expected {want}", String::from_utf8_lossy(&l)));
                                }
                                got.push(expected.get(k).cloned().unwrap_or_default());
                            }
                        } else if mode == "cond" {
                            // the loop consumed the lines up to and including the sentinel and counted them
                            let k = stop_line(case);
                            let mut printed = out.into_iter();
                            match printed.next() {
                                Some(n) if n == k.to_string().into_bytes() => {
                                    got.extend(expected.iter().take(k + 1).cloned());
                                    got.extend(printed);
                                }
                                Some(n) => {
                                    fake_libc::take_stdin();
                                    return res.violation(
                                        "wrong-line",
                                        format!("the loop `jasi (not (read_line(\"\") na \"STOP\"))` ran {} times; the sentinel is line {k}", String::from_utf8_lossy(&n)),
                                    );
                                }
                                None => {}
                            }
                        } else {
                            got.extend(out);
                        }
                        if let Some(e) = err.first() {
                            failed = Some(e.clone());
                        }
                    }
                }
            }
        }
        let sim = fake_libc::take_stdin().unwrap();

        // probes
        res.count("read_calls", sim.calls as u64);
        res.count("reads_returning_bytes_past_a_newline", sim.past_newline as u64);
        res.count("runs_where_buffer_had_to_grow", u64::from(sim.max_count > 8192 || text.split(|b| *b == b'\n').any(|l| l.len() > 8192)));
        res.count("runs_ending_without_final_newline", u64::from(!text.is_empty() && text.last() != Some(&b'\n')));
        res.count("reads_after_eof", sim.reads_after_eof as u64);
        res.count(&format!("mode_{mode}"), 1);
        let injected = errors.iter().filter(|(k, _)| *k < sim.calls).count() as u64;
        res.count("injected_read_errors_hit", injected);
        // a multi-byte character split across two reads
        let mut pos = 0usize;
        let mut split_mb = 0u64;
        for (_, n) in &sim.log {
            if *n == usize::MAX || *n == 0 {
                continue;
            }
            pos += n;
            if pos < text.len() && (text[pos] & 0xC0) == 0x80 {
                split_mb += 1;
            }
        }
        res.count("multibyte_char_split_across_reads", split_mb);

        let mut h = fnv(0, &serde_json::to_vec(&case["lines"]).unwrap());
        h = fnv(h, mode.as_bytes());
        for (c, n) in &sim.log {
            h = fnv_u64(fnv_u64(h, *c as u64), *n as u64);
        }
        res.trace_hash = h;
        res.nontrivial = sim.past_newline > 0 || sim.max_count > 8192 || split_mb > 0;

        // texts with CR: only chunking independence is demanded - the same text delivered all at once
        if !case["cr"].is_null() {
            res.count("texts_with_carriage_returns", 1);
            drain_carry_over();
            fake_libc::install_stdin(StdinSim { data: text.clone(), ..StdinSim::default() });
            let arena = Arena::new(64 << 20).unwrap();
            let prompt = NsValue::Str(ArenaCow::borrowed(""));
            let mut whole: Vec<Vec<u8>> = vec![];
            for _ in 0..calls {
                match <naijascript::sys::stdin as Stdin>::read_line(&prompt, &arena) {
                    Ok(s) => whole.push(s.as_bytes().to_vec()),
                    Err(_) => break,
                }
            }
            fake_libc::take_stdin();
            if let Some(k) = (0..calls).find(|k| got.get(*k) != whole.get(*k)) {
                let show = |v: Option<&Vec<u8>>| v.map(|b| format!("{} bytes {:?}", b.len(), String::from_utf8_lossy(&b[..b.len().min(16)]))).unwrap_or_else(|| "nothing".into());
                return res.violation(
                    "chunking-dependent",
                    format!("call {k}: {} with the planned pieces, {} when the same text arrives at once", show(got.get(k)), show(whole.get(k))),
                );
            }
            return res;
        }
        // after a retryable error the caller went on: nothing that was returned may be wrong data -
        // the lines continue with the one the failed call was reading, or with the one after it
        if !after.is_empty() {
            res.count("calls_continued_after_a_retryable_error", after.len() as u64);
            let k = got.len();
            let same = |from: usize| after.iter().enumerate().all(|(j, a)| expected.get(from + j).is_some_and(|e| e == a) || (from + j >= expected.len() && a.is_empty()));
            if !same(k) && !same(k + 1) {
                let j = (0..after.len()).find(|j| expected.get(k + j) != after.get(*j)).unwrap_or(0);
                return res.violation(
                    "wrong-line-after-error",
                    format!(
                        "call {} failed (retryable); the call {} after it returned {:?}, which is neither line {} nor line {} of the input",
                        k,
                        j + 1,
                        String::from_utf8_lossy(&after[j][..after[j].len().min(24)]),
                        k + j,
                        k + j + 1
                    ),
                );
            }
        }
        // oracle
        let bad_line = |k: usize| expected.get(k).is_some_and(|e| std::str::from_utf8(e).is_err());
        let has_bad = (0..expected.len()).any(bad_line);
        res.count("inputs_with_a_line_that_is_not_utf8", u64::from(has_bad));
        // an error is expected where one was injected, or where the line being read is not text
        let err_expected = injected > 0 || (failed.is_some() && bad_line(got.len()));
        for (k, g) in got.iter().enumerate() {
            if std::str::from_utf8(g).is_err() {
                return res.violation("invalid-utf8", format!("call {k} returned invalid UTF-8"));
            }
            if bad_line(k) {
                // some valid replacement text: nothing more is demanded of this one call
                res.count("info_non_utf8_line_returned_as_replacement_text", 1);
                continue;
            }
            if k >= expected.len() || *g != expected[k] {
                let want = expected.get(k).cloned().unwrap_or_default();
                return res.violation(
                    "wrong-line",
                    format!(
                        "call {k}: got {} bytes {:?}, expected {} bytes {:?}",
                        g.len(),
                        String::from_utf8_lossy(&g[..g.len().min(24)]),
                        want.len(),
                        String::from_utf8_lossy(&want[..want.len().min(24)])
                    ),
                );
            }
        }
        match (&failed, err_expected) {
            (Some(m), false) => {
                return res.violation("unexpected-error", format!("after {} lines: {m}", got.len()));
            }
            (None, _) => {
                // an injected error that did not surface was retried inside read_line; that is as good
                // as no error, provided every call still returned its line (checked above and here)
                if err_expected {
                    res.count("info_injected_errors_absorbed_by_a_retry", 1);
                }
                if got.len() != calls {
                    return res.violation(
                        "wrong-line",
                        format!("{} results for {calls} calls", got.len()),
                    );
                }
            }
            (Some(_), true) => {
                res.count("runs_ended_by_injected_error", 1);
            }
        }
        res
    }

    fn shrink(&self, case: &Value) -> Vec<Value> {
        let mut v = vec![];
        let lines = case["lines"].as_array().unwrap();
        let set = |k: &str, x: Value| {
            let mut c = case.clone();
            c[k] = x;
            c
        };
        if !case["errors"].as_array().unwrap().is_empty() {
            v.push(set("errors", json!([])));
        }
        if case["mode"] != "direct" {
            v.push(set("mode", json!("direct")));
        }
        // drop lines (halves, then single)
        if lines.len() > 1 {
            v.push(set("lines", json!(lines[..lines.len() / 2])));
            v.push(set("lines", json!(lines[lines.len() / 2..])));
        }
        for i in 0..lines.len() {
            let mut l = lines.clone();
            l.remove(i);
            let mut c = set("lines", json!(l));
            c["calls"] = json!(lines.len() - 1 + 3);
            v.push(c);
        }
        for i in 0..lines.len() {
            let len = lines[i]["len"].as_u64().unwrap();
            for nl in [0, len / 2, len.saturating_sub(1)] {
                if nl < len {
                    let mut l = lines.clone();
                    l[i]["len"] = json!(nl);
                    v.push(set("lines", json!(l)));
                }
            }
            if lines[i]["kind"] != "ascii" {
                let mut l = lines.clone();
                l[i]["kind"] = json!("ascii");
                v.push(set("lines", json!(l)));
            }
        }
        let plan = case["plan"].as_array().unwrap();
        if plan.len() > 1 {
            v.push(set("plan", json!(plan[..plan.len() / 2])));
            v.push(set("plan", json!([plan[plan.len() - 1]])));
            for i in 0..plan.len().min(24) {
                let mut p = plan.clone();
                p.remove(i);
                v.push(set("plan", json!(p)));
            }
        }
        if plan.len() == 1 && plan[0].as_u64().unwrap() != (usize::MAX >> 1) as u64 {
            v.push(set("plan", json!([usize::MAX >> 1])));
        }
        let calls = case["calls"].as_u64().unwrap();
        if calls > 1 {
            v.push(set("calls", json!(calls - 1)));
        }
        if case["final_newline"] == true {
            v.push(set("final_newline", json!(false)));
        }
        v
    }

    fn classify_crash(&self, how: &str, tail: &str, _stage: &str) -> Verdict {
        Verdict::Violation {
            class: "crash".into(),
            msg: format!("interpreter died in read_line ({how}): {}", last_lines(tail, 4)),
        }
    }

    fn sample(&self, case: &Value) -> Value {
        let mut c = case.clone();
        if let Some(p) = c["plan"].as_array()
            && p.len() > 12
        {
            let n = p.len();
            c["plan"] = json!({"first": p[..12], "entries": n});
        }
        c
    }

    fn rule(&self) -> String {
        "case = input text (0-40 lines; lengths biased to 0,1,8 KiB±1,16 KiB±1,…; ASCII and 2/3/4-byte \
         characters; with/without final newline) + delivery plan (bytes each read(0) may return: all, \
         one line per read, 1 byte, fixed k, random, aligned to end on/before/after each newline, 8 KiB-aligned) \
         + mode (script straight-line / loop / collect-into-array / first results unused / behind one or two \
         user functions with unused results / filtering loop that skips most of 150-1530 lines with `next` on a \
         512-1024 KiB frame arena / read_line in a loop condition until a sentinel line, same arena / a helper declared below its function's `return` / read_line on the right of `and`/`or`, or direct sys::stdin::read_line) + optional injected read error (it may \
         surface, or be retried inside read_line; either way no call may return a wrong line). Non-trivial = some read returned bytes past a newline, or the buffer had to grow \
         past 8 KiB, or a multi-byte character was split across reads. Distinct = hash of text shape, mode and \
         the (asked, returned) log of every read."
            .into()
    }
    fn assumptions(&self) -> Vec<String> {
        vec![
            "the kernel side of fd 0 is a stub: read(0,..) returns min(count, planned piece, remaining) bytes, then 0".into(),
            "no CR in inputs (whether CR belongs to the terminator is not stated)".into(),
            "after an injected read error only the lines returned before it are checked".into(),
        ]
    }
    fn components(&self) -> Value {
        json!({"real": ["src/sys/unix.rs UnixStdin::read_line", "GlobalBuiltin::read_line", "lexer/parser/resolver/runtime (script modes)", "arena allocator"],
               "stub": ["libc::read on fd 0 (fake_libc::read)"]})
    }
}

/// `naija` reads the same text from a real pipe, written in the planned pieces with real pauses.
fn exec_real(case: &Value) -> RunResult {
    let mut res = RunResult::new();
    res.trace_hash = fnv(0, &serde_json::to_vec(case).unwrap());
    res.nontrivial = true;
    res.count("real_os_cross_checks", 1);
    let text = text_of(case);
    let calls = case["calls"].as_u64().unwrap() as usize;
    let plan: Vec<usize> = case["plan"].as_array().unwrap().iter().map(|x| x.as_u64().unwrap() as usize).collect();
    let pauses: Vec<u64> = case["pauses"].as_array().map(|a| a.iter().map(|x| x.as_u64().unwrap()).collect()).unwrap_or_default();
    let mut feed: Vec<(Vec<u8>, u64)> = vec![];
    let mut pos = 0;
    let mut k = 0;
    while pos < text.len() && feed.len() < 3000 {
        let n = plan.get(k.min(plan.len().saturating_sub(1))).copied().unwrap_or(usize::MAX).max(1).min(text.len() - pos);
        feed.push((text[pos..pos + n].to_vec(), pauses.get(k % pauses.len().max(1)).copied().unwrap_or(0)));
        pos += n;
        k += 1;
    }
    if pos < text.len() {
        feed.push((text[pos..].to_vec(), 0));
    }
    res.count("real_pipe_writes", feed.len() as u64);
    let src = format!("make i get 0\njasi (i small pass {calls}) start\n  shout(read_line(\"\"))\n  i get i add 1\nend\n");
    // a plain pipe: read_line asks for varying byte counts, so packet sockets (which cut a packet to
    // the reader's count) would lose data by themselves; deterministic chunking is the simulation's job
    let run = realos::run_naija(&src, Some(&feed));
    let run = match run {
        Ok(r) => r,
        Err(m) => return res.violation("harness", m),
    };
    let mut want: Vec<u8> = vec![];
    let mut lines: Vec<&[u8]> = text.split(|b| *b == b'\n').collect();
    while lines.len() < calls {
        lines.push(b"");
    }
    for l in lines.iter().take(calls) {
        want.extend_from_slice(l);
        want.push(b'\n');
    }
    if run.code != 0 {
        return res.violation("unexpected-error", format!("real pipe: naija exited {}: {:?}", run.code, String::from_utf8_lossy(&run.stdout).chars().take(200).collect::<String>()));
    }
    if run.stdout != want {
        let k = run.stdout.iter().zip(want.iter()).position(|(a, b)| a != b).unwrap_or(run.stdout.len().min(want.len()));
        return res.violation("wrong-line", format!("real pipe: output differs from the input lines at byte {k} ({} vs {} bytes)", run.stdout.len(), want.len()));
    }
    res
}
