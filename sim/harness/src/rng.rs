//! SplitMix64: the only source of randomness in the harness. One `VERIF_SEED` decides
//! everything: run `i` of engine `tag` draws from `Rng::stream(seed, tag, i)`.
#[derive(Clone, Debug)]
pub struct Rng(pub u64);

impl Rng {
    pub fn stream(seed: u64, tag: u64, i: u64) -> Self {
        let mut r = Rng(
            seed ^ tag.wrapping_mul(0xD6E8_FEB8_6659_FD93) ^ i.wrapping_mul(0x9E37_79B9_7F4A_7C15),
        );
        r.next();
        r.next();
        r
    }
    pub fn next(&mut self) -> u64 {
        self.0 = self.0.wrapping_add(0x9E37_79B9_7F4A_7C15);
        let mut z = self.0;
        z = (z ^ (z >> 30)).wrapping_mul(0xBF58_476D_1CE4_E5B9);
        z = (z ^ (z >> 27)).wrapping_mul(0x94D0_49BB_1331_11EB);
        z ^ (z >> 31)
    }
    pub fn below(&mut self, n: u64) -> u64 {
        if n == 0 { 0 } else { self.next() % n }
    }
    pub fn range(&mut self, lo: u64, hi_incl: u64) -> u64 {
        lo + self.below(hi_incl - lo + 1)
    }
    pub fn usize(&mut self, lo: usize, hi_incl: usize) -> usize {
        self.range(lo as u64, hi_incl as u64) as usize
    }
    pub fn chance(&mut self, percent: u64) -> bool {
        self.below(100) < percent
    }
    pub fn pick<T: Clone>(&mut self, v: &[T]) -> T {
        v[self.below(v.len() as u64) as usize].clone()
    }
    pub fn fork(&mut self) -> Rng {
        Rng(self.next())
    }
}

/// FNV-1a over bytes, used for trace hashes.
pub fn fnv(h: u64, bytes: &[u8]) -> u64 {
    let mut h = if h == 0 { 0xcbf2_9ce4_8422_2325 } else { h };
    for b in bytes {
        h ^= u64::from(*b);
        h = h.wrapping_mul(0x0000_0100_0000_01B3);
    }
    h
}
pub fn fnv_u64(h: u64, x: u64) -> u64 {
    fnv(h, &x.to_le_bytes())
}
