//! The library pipeline (lexer, parser, resolver, runtime) wired the way tests/common.rs wires it:
//! fresh, separate arenas per run.
use naijascript::arena::Arena;
use naijascript::diagnostics::Severity;
use naijascript::process::HostPolicy;
use naijascript::resolver::Resolver;
use naijascript::runtime::Runtime;
use naijascript::syntax::parser::Parser;
use naijascript::syntax::scanner::Lexer;

#[derive(Debug, PartialEq, Clone)]
pub enum Outcome {
    Rejected(String),
    Ran {
        /// rendered bytes of every printed value, in order
        out: Vec<Vec<u8>>,
        /// runtime diagnostics: "message@start..end [label; label]"
        err: Vec<String>,
    },
}

pub const ARENA_CAP: usize = 256 << 20;
pub const FRAME_CAP: usize = 64 << 20;

/// Runs `src` on fresh arenas. `with_frame = false` is the documented reference
/// configuration: one arena, nothing ever reset or reused.
pub fn run_library(src: &str, with_frame: bool, policy: Option<HostPolicy>) -> Outcome {
    run_library_caps(src, with_frame, policy, ARENA_CAP, FRAME_CAP)
}

/// The same with chosen arena capacities (a tuning knob of the embedder: the CLI uses 256 MiB each).
pub fn run_library_caps(src: &str, with_frame: bool, policy: Option<HostPolicy>, arena_cap: usize, frame_cap: usize) -> Outcome {
    let arena = Arena::new(arena_cap).expect("arena");
    let frame = Arena::new(frame_cap).expect("frame arena");
    let lexer = Lexer::new(src, &arena);
    let mut parser = Parser::new(lexer, &arena);
    let (root, perr) = parser.parse_program();
    if !perr.diagnostics.is_empty() {
        let d = &perr.diagnostics[0];
        return Outcome::Rejected(format!("parse: {} @{}..{}", d.message, d.span.start, d.span.end));
    }
    let mut resolver = Resolver::new(&arena);
    resolver.resolve(root);
    if resolver.errors.has_errors() {
        let d = resolver
            .errors
            .diagnostics
            .iter()
            .find(|d| d.severity == Severity::Error)
            .expect("error diagnostic");
        let labels: Vec<String> = d.labels.iter().map(|l| l.message.to_string()).collect();
        return Outcome::Rejected(format!(
            "resolve: {} @{}..{} [{}]",
            d.message,
            d.span.start,
            d.span.end,
            labels.join("; ")
        ));
    }
    let fr = if with_frame { Some(&frame) } else { None };
    let mut rt = match policy {
        Some(p) => Runtime::new_with_host_policy(&arena, fr, p),
        None => Runtime::new(&arena, fr),
    };
    rt.run_with_analysis(root, &resolver.facts, resolver.optimization_plan.as_ref());
    let out = rt.output.iter().map(|v| format!("{v}").into_bytes()).collect();
    let err = rt
        .errors
        .diagnostics
        .iter()
        .map(|d| {
            let labels: Vec<String> = d.labels.iter().map(|l| l.message.to_string()).collect();
            format!("{}@{}..{} [{}]", d.message, d.span.start, d.span.end, labels.join("; "))
        })
        .collect();
    Outcome::Ran { out, err }
}
