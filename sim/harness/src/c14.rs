//! C14: the shipped pipeline matches the library; runs do not influence each other.
//!
//! (a) `sessionsim`: histories of runs in one process over the two process-global scratch arenas,
//!     wired call for call like the playground entry point (wasm/src/lib.rs::run_source), with
//!     faults between runs: stale memory kept (wasm-like decommit) and scribbled with junk,
//!     runs that end at an arbitrary point (planted lexical/syntax/static/runtime errors).
//!     Oracle: the same program alone through the library pipeline on fresh, separate arenas.
//! (b) CLI differential: the real un-hooked `naija` binary via file, --eval and `-` (stdin in
//!     seeded chunks); stdout bytes and exit status against the library's prediction.

use naijascript::arena::{self, Arena, scratch_arena};
use naijascript::resolver::Resolver;
use naijascript::runtime::Runtime;
use naijascript::syntax::parser::Parser;
use naijascript::syntax::scanner::Lexer;
use naijascript::sys::verif_shim::fake_libc::{self, VmSim};
use serde_json::{Value, json};

use crate::common::*;
use crate::prog::{self, St};
use crate::realos;
use crate::rng::{Rng, fnv};

pub struct C14;

const MEBI: usize = 1 << 20;

/// What a run shows to its user: (ending, everything it printed in order).
#[derive(Clone, Debug, PartialEq)]
pub struct Shown {
    /// "parse-error" | "static-error" | "runtime-error" | "ok"
    pub ending: &'static str,
    pub text: String,
}

/// wasm/src/lib.rs::run_source, call for call, on the native target (HTML conversion left out;
/// the library prints every `shout` itself, here we collect the rendered values like the
/// playground does).
/// A scratch-arena guard that behaves like the playground under a wasm trap: when the run is cut
/// short by a panic (panic = abort there: nothing is unwound, no destructor runs, the instance stays
/// alive and the next call starts with `init`), the guard is leaked instead of dropped.
struct TrapLeak<T>(std::mem::ManuallyDrop<T>);
impl<T> TrapLeak<T> {
    fn new(t: T) -> Self {
        TrapLeak(std::mem::ManuallyDrop::new(t))
    }
}
impl<T> Drop for TrapLeak<T> {
    fn drop(&mut self) {
        if !std::thread::panicking() {
            unsafe { std::mem::ManuallyDrop::drop(&mut self.0) }
        }
    }
}
impl<T> std::ops::Deref for TrapLeak<T> {
    type Target = T;
    fn deref(&self) -> &T {
        &self.0
    }
}

pub fn playground_run(src: &str, filename: &str) -> Shown {
    match std::panic::catch_unwind(|| playground_body(src, filename)) {
        Ok(s) => s,
        Err(_) => Shown { ending: "trap", text: String::new() },
    }
}

fn playground_body(src: &str, filename: &str) -> Shown {
    if let Err(err) = arena::init(16 * MEBI) {
        return Shown { ending: "init-failed", text: format!("Failed to initialize arena: {err}") };
    }
    let arena = TrapLeak::new(scratch_arena(None));

    let lexer = Lexer::new(src, &arena);
    let mut parser = Parser::new(lexer, &arena);
    let (root, err) = parser.parse_program();
    if !err.diagnostics.is_empty() {
        return Shown { ending: "parse-error", text: err.render_ansi(src, filename).to_string() };
    }

    let mut non_err = String::with_capacity(src.len() / 2);
    {
        let res_arena = TrapLeak::new(scratch_arena(Some(&arena)));
        let mut resolver = Resolver::with_facts_arena(&res_arena, &arena);
        resolver.resolve(root);
        if resolver.errors.has_errors() {
            return Shown { ending: "static-error", text: resolver.errors.render_ansi(src, filename).to_string() };
        }
        if !resolver.errors.diagnostics.is_empty() {
            non_err.push_str(&resolver.errors.render_ansi(src, filename));
        }
        let (facts, optimization_plan) = resolver.into_artifacts();

        // (as in wasm/src/lib.rs since d0c7e99: the resolver's working memory goes first)
        drop(res_arena);
        let frame = TrapLeak::new(scratch_arena(Some(&arena)));
        let mut runtime = Runtime::new(&arena, Some(&frame));
        runtime.run_with_analysis(root, &facts, optimization_plan.as_ref());
        let err = &runtime.errors;
        if err.has_errors() {
            // the playground shows only the diagnostic; keep the printed values too so that the
            // comparison also covers what ran before the error
            let printed = runtime.output.iter().map(ToString::to_string).collect::<Vec<_>>().join("\n");
            return Shown { ending: "runtime-error", text: format!("{}{}\n--printed--\n{printed}", non_err, err.render_ansi(src, filename)) };
        }
        if !err.diagnostics.is_empty() {
            non_err.push_str(&err.render_ansi(src, filename));
        }
        let res = runtime.output.iter().map(ToString::to_string).collect::<Vec<_>>().join("\n");
        Shown { ending: "ok", text: format!("{non_err}{res}") }
    }
}

/// The same program alone through the library pipeline with fresh, separate arenas
/// (tests/common.rs::with_pipeline wiring).
/// `traps`: the program carries a planted trap, so a panic is its expected ending. Any other program
/// that panics here dies with the worker and the case is discarded (resource exhaustion in the small
/// reference arenas, or an interpreter panic that belongs to another property).
pub fn isolated_run(src: &str, filename: &str, traps: bool) -> Shown {
    if !traps {
        return isolated_body(src, filename);
    }
    install_panic_recorder();
    match std::panic::catch_unwind(|| isolated_body(src, filename)) {
        Ok(s) => s,
        Err(e) => {
            if !last_panic_is_planted_trap() {
                // it ran out of memory (or hit something else) before reaching the planted trap
                std::panic::resume_unwind(e);
            }
            Shown { ending: "trap", text: String::new() }
        }
    }
}

thread_local! {
    static LAST_PANIC: std::cell::RefCell<String> = const { std::cell::RefCell::new(String::new()) };
}
fn install_panic_recorder() {
    static ONCE: std::sync::Once = std::sync::Once::new();
    ONCE.call_once(|| {
        let default = std::panic::take_hook();
        std::panic::set_hook(Box::new(move |info| {
            LAST_PANIC.with(|l| *l.borrow_mut() = info.to_string());
            default(info);
        }));
    });
}
/// The planted trap is a `run()` without a simulated host.
fn last_panic_is_planted_trap() -> bool {
    LAST_PANIC.with(|l| {
        let m = l.borrow();
        m.contains("no simulated world installed") || m.contains("outside of a Shuttle test")
    })
}

fn isolated_body(src: &str, filename: &str) -> Shown {
    // a little smaller than the playground's 16 MiB arenas, which also hold the resolver's
    // scratch data: a program that fits here fits there (one that does not is discarded)
    let arena = Arena::new(if ROOMY_REFERENCE.with(std::cell::Cell::get) { 4096 * MEBI } else { 12 * MEBI }).expect("arena");
    // (roomy references get a frame arena as large as the playground's)
    let frame = Arena::new(if ROOMY_REFERENCE.with(std::cell::Cell::get) { 16 * MEBI } else { 12 * MEBI }).expect("frame");
    let lexer = Lexer::new(src, &arena);
    let mut parser = Parser::new(lexer, &arena);
    let (root, perr) = parser.parse_program();
    if !perr.diagnostics.is_empty() {
        return Shown { ending: "parse-error", text: perr.render_ansi(src, filename).to_string() };
    }
    let mut resolver = Resolver::new(&arena);
    resolver.resolve(root);
    if any_error(&resolver.errors) {
        return Shown { ending: "static-error", text: resolver.errors.render_ansi(src, filename).to_string() };
    }
    let mut non_err = String::new();
    if !resolver.errors.diagnostics.is_empty() {
        non_err.push_str(&resolver.errors.render_ansi(src, filename));
    }
    let mut runtime = Runtime::new(&arena, Some(&frame));
    runtime.run_with_analysis(root, &resolver.facts, resolver.optimization_plan.as_ref());
    let err = &runtime.errors;
    if any_error(err) {
        let printed = runtime.output.iter().map(ToString::to_string).collect::<Vec<_>>().join("\n");
        return Shown { ending: "runtime-error", text: format!("{}{}\n--printed--\n{printed}", non_err, err.render_ansi(src, filename)) };
    }
    if !err.diagnostics.is_empty() {
        non_err.push_str(&err.render_ansi(src, filename));
    }
    let res = runtime.output.iter().map(ToString::to_string).collect::<Vec<_>>().join("\n");
    Shown { ending: "ok", text: format!("{non_err}{res}") }
}

/// What `naija` must write to stdout and its exit status, predicted with the library pipeline.
thread_local! {
    /// Reference runs of the "many diagnostics" templates get a roomy arena: what such a program
    /// legitimately needs is a report of a few hundred KiB, so a reference that runs out of memory
    /// would only hide a renderer that wastes it.
    static ROOMY_REFERENCE: std::cell::Cell<bool> = const { std::cell::Cell::new(false) };
}
fn roomy(plant: &Value) -> bool {
    plant == "many-errors" || plant == "many-warnings" || plant == "resolver-heavy"
}

/// "Any error diagnostic", decided here from the list itself: the references do not ask the library's
/// own `has_errors` (round 9: C14-25 made it look at the last diagnostic only, and an oracle that shares
/// the routine shares the mistake).
fn any_error(d: &naijascript::diagnostics::Diagnostics) -> bool {
    d.diagnostics.iter().any(|x| matches!(x.severity, naijascript::diagnostics::Severity::Error))
}

pub fn predict_cli(src: &str, filename: &str) -> (Vec<u8>, i32, &'static str) {
    let arena = Arena::new(if ROOMY_REFERENCE.with(std::cell::Cell::get) { 4096 * MEBI } else { 200 * MEBI }).expect("arena");
    // (roomy references get a frame arena as large as the CLI's)
    let frame = Arena::new(if ROOMY_REFERENCE.with(std::cell::Cell::get) { 256 * MEBI } else { 64 * MEBI }).expect("frame");
    let lexer = Lexer::new(src, &arena);
    let mut parser = Parser::new(lexer, &arena);
    let (root, perr) = parser.parse_program();
    if !perr.diagnostics.is_empty() {
        return (perr.render_ansi(src, filename).as_bytes().to_vec(), 1, "parse-error");
    }
    let mut resolver = Resolver::new(&arena);
    resolver.resolve(root);
    if any_error(&resolver.errors) {
        return (resolver.errors.render_ansi(src, filename).as_bytes().to_vec(), 1, "static-error");
    }
    let mut out: Vec<u8> = vec![];
    if !resolver.errors.diagnostics.is_empty() {
        out.extend_from_slice(resolver.errors.render_ansi(src, filename).as_bytes());
    }
    let mut runtime = Runtime::new(&arena, Some(&frame));
    runtime.run_with_analysis(root, &resolver.facts, resolver.optimization_plan.as_ref());
    let err = &runtime.errors;
    for v in &runtime.output {
        out.extend_from_slice(format!("{v}\n").as_bytes());
    }
    if !err.diagnostics.is_empty() {
        out.extend_from_slice(err.render_ansi(src, filename).as_bytes());
    }
    if any_error(err) { (out, 1, "runtime-error") } else { (out, 0, "ok") }
}

/// Statements that make a run end early or produce diagnostics. (text, what it plants)
fn planted(r: &mut Rng) -> (String, &'static str) {
    let k = r.below(20);
    match k {
        // an error the run never trips over, with an analysis warning reported after it
        18 => ("do zhelper() start return \"a\" minus 1 end".into(), "static"),
        19 => ("make zunused2 get 1\ndo zhelper2(a) start return zz_undeclared2 end".into(), "static"),
        // several diagnostics from one declaration: the order they are reported in is part of the output
        17 => ("do zparams(aa, bb, cc, dd, aa, bb, cc, dd) start return 1 end".into(), "static"),
        0 => ("make zq1 get \"never closed".into(), "lexical"),
        1 => ("make zq2 get 3 @ 4".into(), "lexical"),
        2 => ("make get 3".into(), "syntax"),
        3 => ("if to say ( start".into(), "syntax"),
        4 => ("shout(zz_undeclared)".into(), "static"),
        5 => ("comot".into(), "static"),
        6 => ("return 1".into(), "static"),
        7 => ("do zdup() start return 1 end\ndo zdup() start return 2 end".into(), "static"),
        8 => ("do zar(a) start return a end\nshout(zar(1, 2))".into(), "static"),
        9 => ("make shout get 1".into(), "static"),
        10 => ("make zunused get 12".into(), "warning"),
        11 => ("do zdead() start return 1 shout(2) end\nshout(zdead())".into(), "warning"),
        12 => ("shout(1 divide 0)".into(), "runtime"),
        13 => ("make za get [1, 2]\nshout(za[5])".into(), "runtime"),
        14 => ("make zb get [1, 2]\nshout(zb[0.5])".into(), "runtime"),
        15 => ("make zc get [1, \"s\"]\nshout(zc[0].to_uppercase())".into(), "runtime"),
        _ => ("do zso(n) start return zso(n add 1) add 1 end\nshout(zso(0))".into(), "runtime"),
    }
}

/// Sources that are nothing but an oddity: empty, blank, comment only, or a lone bad line.
fn degenerate(r: &mut Rng) -> (String, &'static str) {
    let k = r.below(12);
    degenerate_kind(k, r)
}
fn degenerate_kind(k: u64, r: &mut Rng) -> (String, &'static str) {
    match k {
        0 => (String::new(), "empty"),
        1 => ("   \n\t\n".into(), "blank"),
        2 => ("# only a comment\n# another".into(), "comment-only"),
        3 => ("@".into(), "lexical-only"),
        4 => ("\"hello\".to_uppercase()\nshout(\"never\")".into(), "syntax-only"),
        5 => ("5 add 5".into(), "syntax-only"),
        6 => ("end\nshout(\"x\")".into(), "syntax-only"),
        7 => ("shout(".into(), "syntax-only"),
        8 => ("shout(nope)".into(), "static-only"),
        9 => ("make x get 1".into(), "warning-only"),
        10 => ("shout(1 divide 0)".into(), "runtime-only"),
        _ => {
            let (t, _) = planted(r);
            (t, "planted-only")
        }
    }
}

/// A program beyond an analysis limit (more functions than the summary budget allows): analysis is
/// skipped, no optimisation plan exists, and the run must still resolve names lexically.
fn oversize(r: &mut Rng) -> String {
    let mut src = String::from("make x get \"global\"\ndo show() start\n    return x\nend\n");
    match r.below(3) {
        0 => src += "do caller() start\n    make x get \"local\"\n    shout(x)\n    return show()\nend\nshout(caller())\n",
        1 => src += "do caller(x) start\n    shout(x)\n    return show()\nend\nshout(caller(\"param\"))\n",
        _ => src += "make i get 0\njasi (i small pass 1) start\n    i get i add 1\n    make x get \"inner\"\n    shout(show())\nend\nshout(x)\n",
    }
    let n = r.pick(&[4200u64, 4500]);
    for i in 0..n {
        src += &format!("do pad{i}() start\n    return {i}\nend\n");
    }
    src
}

/// Exactly N error diagnostics (N around multiples of 256: an exit status is eight bits wide).
fn many_errors(r: &mut Rng) -> String {
    let n = r.pick(&[255u64, 256, 256, 257, 512]);
    let mut src = String::new();
    let lexical = r.chance(40);
    for i in 0..n {
        if lexical {
            src += "@\n";
        } else {
            src += &format!("shout(zz_undeclared_{i})\n");
        }
    }
    src
}

/// Nothing but warnings: `n` variables that are never read, in a source padded to `pad` extra bytes
/// of comments, then one printed value. The report is n short entries.
fn many_warnings(n: u64, pad: usize) -> String {
    let mut src = String::new();
    for i in 0..n {
        src += &format!("make v{i:04} get 1\n");
    }
    while src.len() < pad {
        src += "# padding padding padding padding padding padding padding padding\n";
    }
    src += "shout(\"done\")\n";
    src
}

/// `k` small functions (working memory for the checker, none of it needed once the program runs), then
/// one expression whose temporaries take most of a frame arena: a string of 2^`doublings` bytes, read
/// four times and concatenated (4 + 2 + 3 + 4 times its length, plus one more copy for `.len()`).
fn resolver_heavy(k: u64, doublings: u64) -> String {
    let mut src = String::from("do f0() start\n    return 1\nend\n");
    for i in 1..k {
        src += &format!("do f{i}() start\n    return f{}() add 1\nend\n", i - 1);
    }
    src += &format!(
        "make s get \"x\"\nmake i get 0\njasi (i small pass {doublings}) start\n    s get s add s\n    i get i add 1\nend\nshout(s.len())\nshout((s add s add s add s).len())\n"
    );
    src
}

/// A function-free loop whose per-iteration temporaries add up to more than the CLI's 256 MiB
/// arenas unless the frame arena is really being reset.
fn churn_loop(r: &mut Rng) -> String {
    // temporaries only: a stored string longer than 256 bytes stays in the persistent arena for good
    let piece = "x".repeat(r.pick(&[12_000usize, 16_384]));
    let iters = r.pick(&[12_000u64, 14_000]);
    format!(
        "make big get \"{piece}\"\nmake i get 0\nmake hits get 0\njasi (i small pass {iters}) start\n    if to say ((big add big) na big) start\n        hits get hits add 1\n    end\n    i get i add 1\nend\nshout(i)\nshout(hits)\n"
    )
}

fn gen_program(r: &mut Rng) -> Value {
    if r.chance(8) {
        let (text, what) = degenerate(r);
        // "src": the exact bytes (rendering a raw line would add a newline to the empty source)
        return json!({"prog": prog::block_to_json(&[St::Raw(text.clone())]), "src": text, "plant": what});
    }
    let mut g = prog::Gen::new(r.fork());
    // sessions and the real binary have neither a simulated host nor a simulated stdin
    g.use_run = false;
    g.use_stdin = false;
    // the playground's arenas are 16 MiB: keep programs small enough to fit
    g.big_strings = false;
    let mut p = g.program();
    let mut what = "plain";
    if r.chance(45) {
        let (text, w) = planted(r);
        what = w;
        // anywhere after the globals and function definitions (keeps forward references legal)
        let first_body = p.iter().rposition(|s| matches!(s, St::Func { .. })).map_or(0, |k| k + 1);
        let pos = r.usize(first_body, p.len());
        p.insert(pos, St::Raw(text));
    }
    json!({"prog": prog::block_to_json(&p), "plant": what})
}

fn source_of(p: &Value) -> String {
    if let Some(s) = p["src"].as_str() {
        return s.to_string();
    }
    // "pad": leading blank lines / spaces (layout twins: same length, same text, other line numbers)
    // "reads": the script starts by echoing that many lines of standard input (sessions with a stdin)
    let reads = "shout(read_line(\"\"))\n".repeat(p["reads"].as_u64().unwrap_or(0) as usize);
    format!("{}{reads}{}", p["pad"].as_str().unwrap_or(""), prog::render(&prog::block_from_json(&p["prog"])))
}

thread_local! {
    static SESSION_VM: std::cell::Cell<bool> = const { std::cell::Cell::new(false) };
}

/// Overwrites every committed byte of the global scratch arenas (all of it is dead between runs).
fn scribble_globals(byte: u8) -> u64 {
    let regions: Vec<(usize, Vec<bool>)> =
        fake_libc::with_vm(|vm| vm.regions.iter().filter(|r| !r.released).map(|r| (r.base, r.committed.clone())).collect()).unwrap_or_default();
    let mut n = 0u64;
    for (base, pages) in regions {
        for (k, c) in pages.iter().enumerate() {
            if *c {
                unsafe { std::ptr::write_bytes((base + k * fake_libc::PAGE) as *mut u8, byte, fake_libc::PAGE) };
                n += fake_libc::PAGE as u64;
            }
        }
    }
    n
}

fn first_diff(a: &str, b: &str) -> String {
    let (x, y) = (a.as_bytes(), b.as_bytes());
    let k = x.iter().zip(y.iter()).position(|(p, q)| p != q).unwrap_or(x.len().min(y.len()));
    let show = |s: &[u8]| String::from_utf8_lossy(&s[k.saturating_sub(20)..(k + 40).min(s.len())]).into_owned();
    format!("first difference at byte {k}: session {:?} vs alone {:?} (lengths {} / {})", show(x), show(y), x.len(), y.len())
}

impl C14 {
    fn exec_session(&self, case: &Value, res: &mut RunResult) -> Result<(), (String, String)> {
        // one kernel model for the life of this worker process: the global arenas are created once
        if !SESSION_VM.with(std::cell::Cell::get) {
            fake_libc::install_vm(VmSim::default());
            SESSION_VM.with(|c| c.set(true));
        }
        let wasm_like = case["wasm_like"].as_bool().unwrap_or(false);
        fake_libc::with_vm(|vm| vm.decommit_noop = wasm_like);
        let progs = case["programs"].as_array().unwrap();
        let order: Vec<usize> = case["order"].as_array().unwrap().iter().map(|x| x.as_u64().unwrap() as usize).collect();
        let scribbles = case["scribble"].as_array().cloned().unwrap_or_default();
        let mut seen: Vec<Option<Shown>> = vec![None; progs.len()];
        // the references first, each program alone, so that the session's runs follow one another
        // with nothing in between (as in a playground instance)
        let mut alone_of: Vec<Option<Shown>> = vec![None; progs.len()];
        // a session with a standard input: one stream for the whole session, every script starts by
        // echoing some lines of it. "Alone" then means: alone at the point of the stream the script
        // finds when its turn comes, so the references are per run.
        let has_stdin = case["stdin"].is_object();
        let stdin_text = if has_stdin { crate::c17::text_of(&case["stdin"]) } else { vec![] };
        let mut alone_of_run: Vec<Shown> = vec![];
        if has_stdin {
            let after_line: Vec<usize> = stdin_text.iter().enumerate().filter(|(_, b)| **b == b'\n').map(|(p, _)| p + 1).collect();
            let offset_of = |n: usize| if n == 0 { 0 } else { after_line.get(n - 1).copied().unwrap_or(stdin_text.len()) };
            let mut consumed = 0usize;
            for (k, &pi) in order.iter().enumerate() {
                stage(&format!("alone run {k}"));
                crate::c17::drain_carry_over();
                fake_libc::install_stdin(fake_libc::StdinSim { data: stdin_text[offset_of(consumed)..].to_vec(), ..fake_libc::StdinSim::default() });
                let alone = isolated_run(&source_of(&progs[pi]), "playground.ns", progs[pi]["plant"] == "trap");
                fake_libc::take_stdin();
                crate::c17::drain_carry_over();
                // the echoing calls come first in the script: they ran unless it was not accepted at all
                if alone.ending != "parse-error" && alone.ending != "static-error" && progs[pi]["src"].is_null() {
                    consumed += progs[pi]["reads"].as_u64().unwrap_or(0) as usize;
                }
                alone_of_run.push(alone);
            }
            res.count("sessions_with_a_standard_input", 1);
            res.count("stdin_lines_consumed_in_sessions", consumed as u64);
            let plan: Vec<usize> = case["stdin"]["plan"].as_array().map(|a| a.iter().map(|x| x.as_u64().unwrap() as usize).collect()).unwrap_or_default();
            fake_libc::install_stdin(fake_libc::StdinSim { data: stdin_text.clone(), plan, ..fake_libc::StdinSim::default() });
        } else {
            for &pi in &order {
                if alone_of[pi].is_none() {
                    stage(&format!("alone {pi}"));
                    ROOMY_REFERENCE.with(|c| c.set(roomy(&progs[pi]["plant"])));
                    alone_of[pi] = Some(isolated_run(&source_of(&progs[pi]), "playground.ns", progs[pi]["plant"] == "trap"));
                    ROOMY_REFERENCE.with(|c| c.set(false));
                }
            }
        }
        // the embedder's glue hands every run its source in the same reused block of memory
        let mut session_src: Vec<u8> = Vec::with_capacity(1 << 20);
        let mut prev_len = usize::MAX;
        for (k, &pi) in order.iter().enumerate() {
            let alone = if has_stdin { alone_of_run[k].clone() } else { alone_of[pi].clone().unwrap() };
            session_src.clear();
            session_src.extend_from_slice(source_of(&progs[pi]).as_bytes());
            let src = std::str::from_utf8(&session_src).unwrap();
            if src.len() == prev_len && k > 0 && order[k - 1] != pi {
                res.count("consecutive_runs_of_different_sources_with_equal_length_and_address", 1);
            }
            prev_len = src.len();
            stage(&format!("session {k}"));
            let got = playground_run(src, "playground.ns");
            stage("between");
            res.count(&format!("runs_ending_{}", alone.ending), 1);
            if got != alone {
                if has_stdin {
                    fake_libc::take_stdin();
                    crate::c17::drain_carry_over();
                }
                let class = if got.ending != alone.ending { "ending-differs" } else { "output-differs" };
                return Err((
                    class.into(),
                    format!("run {k} of the session (program {pi}): ends `{}` alone, `{}` in the session; {}", alone.ending, got.ending, first_diff(&got.text, &alone.text)),
                ));
            }
            if let Some(prev) = &seen[pi]
                && !(has_stdin && progs[pi]["reads"].as_u64().unwrap_or(0) > 0)
            {
                res.count("repeated_programs_compared", 1);
                if *prev != got {
                    if has_stdin {
                        fake_libc::take_stdin();
                        crate::c17::drain_carry_over();
                    }
                    return Err(("repeat-differs".into(), format!("program {pi} gave a different result the second time: {}", first_diff(&got.text, &prev.text))));
                }
            }
            seen[pi] = Some(got);
            // fault between runs: whatever the run left behind is dead memory
            if let Some(b) = scribbles.get(k).and_then(Value::as_u64)
                && b < 256
            {
                let n = scribble_globals(b as u8);
                res.count("fault_bytes_scribbled_between_runs", n);
            }
        }
        if has_stdin {
            fake_libc::take_stdin();
            crate::c17::drain_carry_over();
        }
        let skipped = fake_libc::with_vm(|vm| std::mem::take(&mut vm.skipped_decommits)).unwrap_or(0);
        res.count("fault_decommits_turned_into_noops", skipped);
        fake_libc::with_vm(|vm| vm.decommit_noop = false);
        res.count("session_runs", order.len() as u64);
        Ok(())
    }

    fn exec_cli(&self, case: &Value, res: &mut RunResult) -> Result<(), (String, String)> {
        let src = source_of(&case["program"]);
        let route = case["route"].as_str().unwrap_or("file");
        let bin_kind = case["bin"].as_str().unwrap_or("dev");
        let Ok(bin) = std::env::var(format!("NAIJA_BIN_{bin_kind}")) else {
            return Err(("harness".into(), format!("NAIJA_BIN_{bin_kind} is not set")));
        };
        if !std::path::Path::new(&bin).exists() {
            return Err(("harness".into(), format!("{bin} does not exist (run ./check setup)")));
        }
        let tmp = std::env::var("VERIF_DIR").unwrap_or_else(|_| "/verif".into());
        let path = format!("{tmp}/target/tmp/cli-{}.ns", std::process::id());
        let label = match route {
            "eval" => "<eval>".to_string(),
            "stdin" => "<stdin>".to_string(),
            // a script path that is not a regular file
            "devstdin" => "/dev/stdin".to_string(),
            _ => path.clone(),
        };
        if case["program"]["plant"] == "reads-stdin" || case["program"]["plant"] == "big-stdin-child" {
            // fixed scenarios with a fixed expectation (the in-process prediction has neither the binary's
            // standard input nor real children)
            stage("cli");
            let reads = case["program"]["plant"] == "reads-stdin";
            res.count(if reads { "cli_script_reads_standard_input" } else { "cli_real_child_ignoring_a_large_stdin_text" }, 1);
            let want: &[u8] = if reads { b"before\n\nafter\n" } else { b"131072\ntrue\ndone\n" };
            let path = format!("{tmp}/target/tmp/cli-{}.ns", std::process::id());
            let piped = vec![(src.as_bytes().to_vec(), 0u64)];
            let run = match route {
                "eval" => realos::run_naija_args(&bin, &["--eval", &src], realos::Feed::Null),
                "stdin" => realos::run_naija_args(&bin, &["-"], realos::Feed::Pipe(&piped)),
                "devstdin" => realos::run_naija_args(&bin, &["/dev/stdin"], realos::Feed::Pipe(&piped)),
                _ => {
                    std::fs::write(&path, &src).map_err(|e| ("harness".to_string(), format!("write {path}: {e}")))?;
                    realos::run_naija_args(&bin, &[&path], realos::Feed::Null)
                }
            }
            .map_err(|m| ("harness".to_string(), m))?;
            if run.stdout != want || run.code != 0 {
                return Err((
                    if run.stdout != want { "cli-output-differs" } else { "cli-exit-status" }.into(),
                    format!("naija ({bin_kind}, {route}) on the fixed script `{}`: exit {} stdout {:?}, expected exit 0 stdout {:?}; stderr: {:?}", case["program"]["plant"].as_str().unwrap(), run.code, String::from_utf8_lossy(&run.stdout).chars().take(80).collect::<String>(), String::from_utf8_lossy(want), String::from_utf8_lossy(&run.stderr).chars().take(120).collect::<String>()),
                ));
            }
            return Ok(());
        }
        if route == "stdin-dir" {
            stage("cli");
            res.count("cli_stdin_is_a_directory", 1);
            let run = realos::run_naija_args(&bin, &["-"], realos::Feed::Path("/")).map_err(|m| ("harness".to_string(), m))?;
            if !run.stdout.is_empty() || run.code == 0 {
                return Err((
                    "cli-exit-status".into(),
                    format!("naija - with a directory as standard input: exit status {}, stdout {:?}; nothing can have been read, so nothing may run and the status must be non-zero", run.code, String::from_utf8_lossy(&run.stdout).chars().take(120).collect::<String>()),
                ));
            }
            return Ok(());
        }
        stage("predict");
        ROOMY_REFERENCE.with(|c| c.set(roomy(&case["program"]["plant"])));
        let (want_out, want_code, ending) = predict_cli(&src, &label);
        ROOMY_REFERENCE.with(|c| c.set(false));
        stage("cli");
        if ending == "runtime-error" && want_out.windows(14).any(|w| w == b"Stack overflow") {
            // where exactly the depth budget trips depends on the build's frame sizes (C08 territory):
            // the diagnostic's span legitimately differs between this build and the naija binary. What does
            // not depend on the build: the run ends with that diagnostic and a non-zero status, not by a signal
            if route == "file" {
                res.count("cli_stack_overflow_programs", 1);
                let path = format!("{tmp}/target/tmp/cli-{}.ns", std::process::id());
                std::fs::write(&path, &src).map_err(|e| ("harness".to_string(), format!("write {path}: {e}")))?;
                let run = realos::run_naija_args(&bin, &[&path], realos::Feed::Null).map_err(|m| ("harness".to_string(), m))?;
                if run.code <= 0 || !run.stdout.windows(14).any(|w| w == b"Stack overflow") {
                    return Err((
                        "cli-output-differs".into(),
                        format!("naija ({bin_kind}, file): the library pipeline ends with the `Stack overflow` diagnostic; the binary exited {} with {} bytes of stdout and no such diagnostic; stderr: {:?}", run.code, run.stdout.len(), String::from_utf8_lossy(&run.stderr).chars().take(160).collect::<String>()),
                    ));
                }
                return Ok(());
            }
            return Err(("discard".into(), "stack-overflow-span-is-build-dependent".into()));
        }
        res.count(&format!("cli_{route}"), 1);
        res.count(&format!("cli_{bin_kind}_binary"), 1);
        res.count(&format!("cli_ending_{ending}"), 1);
        // stdin pieces: through a pipe (the kernel may coalesce them) or as SOCK_SEQPACKET packets
        // (every read(2) of the binary returns exactly one piece, so the chunking is deterministic)
        let chunks: Vec<usize> = case["chunks"].as_array().map(|a| a.iter().map(|x| x.as_u64().unwrap() as usize).collect()).unwrap_or_default();
        let mut pieces: Vec<Vec<u8>> = vec![];
        {
            let bytes = src.as_bytes();
            let (mut pos, mut k) = (0, 0);
            while pos < bytes.len() {
                // the binary reads with an 8 KiB buffer: a larger packet would be cut by the socket layer
                let n = chunks.get(k.min(chunks.len().saturating_sub(1))).copied().unwrap_or(usize::MAX).clamp(1, 8192).min(bytes.len() - pos);
                pieces.push(bytes[pos..pos + n].to_vec());
                pos += n;
                k += 1;
            }
        }
        let piped: Vec<(Vec<u8>, u64)> = pieces.iter().map(|p| (p.clone(), 0)).collect();
        let run = match route {
            "eval" => realos::run_naija_args(&bin, &["--eval", &src], realos::Feed::Null),
            "devstdin" => realos::run_naija_args(&bin, &["/dev/stdin"], realos::Feed::Pipe(&piped)),
            "stdin" => {
                res.count("cli_stdin_writes", pieces.len() as u64);
                if case["packets"].as_bool().unwrap_or(false) {
                    res.count("cli_stdin_as_packets", 1);
                    realos::run_naija_args(&bin, &["-"], realos::Feed::Packets(&pieces))
                } else {
                    realos::run_naija_args(&bin, &["-"], realos::Feed::Pipe(&piped))
                }
            }
            _ => {
                std::fs::write(&path, &src).map_err(|e| ("harness".to_string(), format!("write {path}: {e}")))?;
                realos::run_naija_args(&bin, &[&path], realos::Feed::Null)
            }
        };
        let _ = std::fs::remove_file(&path);
        let run = run.map_err(|m| ("harness".to_string(), m))?;
        struct Out {
            stdout: Vec<u8>,
            stderr: Vec<u8>,
        }
        let out = Out { stdout: run.stdout, stderr: run.stderr };
        let code = run.code;
        if out.stdout != want_out {
            let (g, w) = (String::from_utf8_lossy(&out.stdout).into_owned(), String::from_utf8_lossy(&want_out).into_owned());
            return Err((
                "cli-output-differs".into(),
                format!("naija ({bin_kind}, {route}): stdout differs from the library pipeline ({ending}); {}; stderr: {:?}", first_diff(&g, &w), String::from_utf8_lossy(&out.stderr).chars().take(200).collect::<String>()),
            ));
        }
        // the statement asks for 0 on success and non-zero on any error diagnostic, not for a particular
        // non-zero value
        if (want_code == 0) != (code == 0) {
            return Err((
                "cli-exit-status".into(),
                format!("naija ({bin_kind}, {route}) exited with {code}; the library pipeline ends `{ending}`, so the status must be {}", if want_code == 0 { "0" } else { "non-zero" }),
            ));
        }
        Ok(())
    }
}

impl Engine for C14 {
    fn id(&self) -> &'static str {
        "C14"
    }
    fn tag(&self) -> u64 {
        0xC14
    }
    fn profiles(&self, _tier: Tier) -> Vec<&'static str> {
        vec!["simdbg", "simrel"]
    }
    fn runs(&self, tier: Tier, profile: &str) -> u64 {
        match (tier, profile) {
            (Tier::Quick, "simdbg") => 2_400,
            (Tier::Quick, _) => 2_400,
            (Tier::Thorough, "simdbg") => 60_000,
            (Tier::Thorough, _) => 60_000,
        }
    }

    fn generate(&self, seed: u64, i: u64, tier: Tier) -> Value {
        let mut r = Rng::stream(seed, self.tag(), i);
        if i % 3 == 2 {
            // (b) CLI differential
            let mut program = gen_program(&mut r);
            let mut route = r.pick(&["file", "eval", "stdin", "file", "stdin", "devstdin"]);
            if r.chance(3) {
                program = json!({"prog": prog::block_to_json(&[St::Raw(many_errors(&mut r))]), "plant": "many-errors"});
            } else if r.chance(3) {
                let text = many_warnings(r.pick(&[30u64, 125, 500, 800]), r.pick(&[0usize, 10_000, 68_000]));
                program = json!({"prog": prog::block_to_json(&[St::Raw(String::new())]), "src": text, "plant": "many-warnings"});
                if route == "eval" && program["src"].as_str().unwrap().len() > 100_000 {
                    route = "file";
                }
            } else if r.chance(2) {
                program = json!({"prog": prog::block_to_json(&[St::Raw(churn_loop(&mut r))]), "plant": "churn-loop"});
                if route == "eval" {
                    route = "file";
                }
            }
            if r.chance(3) {
                // too long for an argument vector: file and stdin routes only
                program = json!({"prog": prog::block_to_json(&[St::Raw(oversize(&mut r))]), "plant": "oversize"});
                if route == "eval" {
                    route = "file";
                }
            }
            if tier == Tier::Thorough && (i / 3) % 4000 == 77 {
                // CLI scale: 3000 functions through the checker, then 208 MiB of temporaries in one
                // expression (release binary; the debug one needs a minute for it)
                let text = resolver_heavy(3000, 24);
                let program = json!({"prog": prog::block_to_json(&[St::Raw(String::new())]), "src": text, "plant": "resolver-heavy"});
                return json!({"kind": "cli", "program": program, "route": "file", "chunks": [65536], "bin": "release", "packets": false});
            }
            // fixed scripts through every route: one reads a line of standard input itself (nothing is left:
            // an empty line), one gives a large stdin_text to a real child that never reads it
            if (i / 3) % 32 == 13 {
                let which = (i / 3 / 32) % 8;
                let route = ["file", "eval", "stdin", "devstdin"][(which % 4) as usize];
                let (text, what) = if which < 4 {
                    ("shout(\"before\")\nshout(read_line(\"\"))\nshout(\"after\")\n".to_string(), "reads-stdin")
                } else {
                    ("make big get \"x\"\nmake i get 0\njasi (i small pass 17) start\n    big get big add big\n    i get i add 1\nend\nshout(big.len())\nmake c get command(\"true\")\nc.stdin_text(big)\nmake r get c.run()\nshout(r.success())\nshout(\"done\")\n".to_string(), "big-stdin-child")
                };
                let program = json!({"prog": prog::block_to_json(&[St::Raw(String::new())]), "src": text, "plant": what});
                return json!({"kind": "cli", "program": program, "route": route, "chunks": [65536], "bin": "dev", "packets": false});
            }
            // the script is to come from standard input, and standard input cannot be read (a directory):
            // nothing may run and the status is non-zero
            if (i / 3) % 64 == 9 {
                return json!({"kind": "cli", "program": program, "route": "stdin-dir", "chunks": [1], "bin": "dev", "packets": false});
            }
            // systematic corner: every kind of degenerate source through every input route
            let ci = i / 3;
            if ci % 16 == 5 {
                let combo = (ci / 16) % 48;
                let (text, what) = degenerate_kind(combo % 12, &mut r);
                program = json!({"prog": prog::block_to_json(&[St::Raw(text.clone())]), "src": text, "plant": what});
                route = ["file", "eval", "stdin", "devstdin"][(combo / 12) as usize % 4];
            }
            let nchunks = r.usize(1, 6);
            let chunks: Vec<u64> = (0..nchunks).map(|_| r.pick(&[1u64, 7, 100, 4096, 8191, 8192, 8193, 65_536])).collect();
            let bin = if tier == Tier::Thorough && r.chance(50) { "release" } else { "dev" };
            return json!({"kind": "cli", "program": program, "route": route, "chunks": chunks, "bin": bin, "packets": r.chance(70)});
        }
        // (a) session
        let nprogs = r.usize(1, 6);
        let mut programs: Vec<Value> = (0..nprogs).map(|_| gen_program(&mut r)).collect();
        if r.chance(4) {
            // the checker's working memory must be gone by the time the program runs: 1 MiB string,
            // 14 MiB of temporaries in one expression, after 200-1200 functions went through the checker
            let text = resolver_heavy(r.pick(&[200u64, 800, 1200]), 20);
            let k = r.usize(0, nprogs - 1);
            programs[k] = json!({"prog": prog::block_to_json(&[St::Raw(String::new())]), "src": text, "plant": "resolver-heavy"});
        }
        if r.chance(6) {
            // a report of many warnings inside a session (the playground's arenas are 16 MiB)
            let text = many_warnings(r.pick(&[30u64, 60, 125]), r.pick(&[0usize, 10_000]));
            let k = r.usize(0, nprogs - 1);
            programs[k] = json!({"prog": prog::block_to_json(&[St::Raw(String::new())]), "src": text, "plant": "many-warnings"});
        }
        // fault: runs that end in a trap at an arbitrary point (the playground instance survives a
        // trapped run; its scratch guards are never dropped). One session in six is trap-heavy.
        let trap_heavy = r.chance(16);
        let mut nruns = r.usize(2, 12);
        if trap_heavy {
            nruns = r.usize(14, 26);
        }
        for p in programs.iter_mut() {
            if r.chance(if trap_heavy { 60 } else { 8 }) && p["plant"] == "plain" {
                let mut stmts = prog::block_from_json(&p["prog"]);
                let first_body = stmts.iter().rposition(|s| matches!(s, St::Func { .. })).map_or(0, |k| k + 1);
                let pos = r.usize(first_body, stmts.len());
                stmts.insert(pos, St::Raw("make ztrap get command(\"trap\")\nztrap.run()".into()));
                *p = json!({"prog": prog::block_to_json(&stmts), "plant": "trap"});
            }
        }
        let mut order: Vec<usize> = (0..nruns).map(|_| r.usize(0, nprogs - 1)).collect();
        // make sure something is repeated
        if nruns > 2 && r.chance(70) {
            order[nruns - 1] = order[0];
        }
        // layout twins: the same program text behind two different paddings of equal length, run one
        // after the other (same address, same length, other line numbers in every diagnostic)
        if r.chance(35) {
            let with_diag: Vec<usize> = (0..nprogs).filter(|k| programs[*k]["plant"] != "plain" && programs[*k]["plant"] != "trap").collect();
            let pi = if with_diag.is_empty() { r.usize(0, nprogs - 1) } else { r.pick(&with_diag) };
            let n = r.usize(1, 4);
            let pad = |r: &mut Rng| (0..n).map(|_| if r.chance(50) { '\n' } else { ' ' }).collect::<String>();
            let a = pad(&mut r);
            let mut b = pad(&mut r);
            if a == b {
                b = if a.starts_with('\n') { format!(" {}", &a[1..]) } else { format!("\n{}", &a[1..]) };
            }
            let mut twin = programs[pi].clone();
            programs[pi]["pad"] = json!(a);
            twin["pad"] = json!(b);
            programs[pi]["twin"] = json!(nprogs);
            twin["twin"] = json!(pi);
            programs.push(twin);
            let at = r.usize(0, nruns - 2);
            order[at] = pi;
            order[at + 1] = nprogs;
            if at + 2 < nruns && r.chance(50) {
                order[at + 2] = pi;
            }
        }
        // a quarter of the sessions have a standard input that their scripts echo from
        let mut stdin = Value::Null;
        if r.chance(25) {
            let n = r.usize(0, 8);
            let lines: Vec<Value> = (0..n).map(|_| json!({"len": r.pick(&[0usize, 1, 5, 40, 300]), "kind": r.pick(&["ascii", "two", "mixed"])})).collect();
            let plan: Vec<usize> = match r.below(3) {
                0 => vec![usize::MAX >> 1],
                1 => vec![r.pick(&[1usize, 3, 7, 64])],
                _ => (0..r.usize(1, 12)).map(|_| r.usize(1, 120)).collect(),
            };
            stdin = json!({"lines": lines, "final_newline": n > 0 && r.chance(50), "plan": plan});
            for p in programs.iter_mut() {
                // (sources given by their exact bytes stay as they are)
                if p["src"].is_null() {
                    p["reads"] = json!(r.below(4));
                }
            }
        }
        let scribble: Vec<u64> = (0..nruns).map(|_| if r.chance(70) { r.pick(&[0u64, 0x41, 0xdd, 0xff, 0x7b]) } else { 999 }).collect();
        json!({"kind": "session", "programs": programs, "order": order, "scribble": scribble, "wasm_like": r.chance(60), "stdin": stdin})
    }

    fn execute(&self, case: &Value) -> RunResult {
        let mut res = RunResult::new();
        res.trace_hash = fnv(0, &serde_json::to_vec(case).unwrap());
        let r = if case["kind"] == "cli" { self.exec_cli(case, &mut res) } else { self.exec_session(case, &mut res) };
        res.nontrivial = true;
        match r {
            Ok(()) => res,
            Err((class, msg)) if class == "discard" => {
                res.verdict = Verdict::Discard(msg);
                res
            }
            Err((class, msg)) => res.violation(&class, msg),
        }
    }

    fn shrink(&self, case: &Value) -> Vec<Value> {
        let mut v = vec![];
        let set = |k: &str, x: Value| {
            let mut c = case.clone();
            c[k] = x;
            c
        };
        if case["kind"] == "cli" {
            if case["route"] != "file" {
                v.push(set("route", json!("file")));
            }
            // (sources given by their exact bytes are scenarios of their own: not shrunk)
            if case["program"]["src"].is_null() {
                let p = prog::block_from_json(&case["program"]["prog"]);
                for cand in prog::shrink_candidates(&p, 300) {
                    v.push(set("program", json!({"prog": prog::block_to_json(&cand), "plant": case["program"]["plant"]})));
                }
            }
            return v;
        }
        let order = case["order"].as_array().unwrap();
        for i in (0..order.len()).rev() {
            if order.len() > 1 {
                let mut o = order.clone();
                o.remove(i);
                let mut c = set("order", json!(o));
                if let Some(s) = case["scribble"].as_array() {
                    let mut s = s.clone();
                    if i < s.len() {
                        s.remove(i);
                    }
                    c["scribble"] = json!(s);
                }
                v.push(c);
            }
        }
        if case["wasm_like"] == true {
            v.push(set("wasm_like", json!(false)));
        }
        if case["scribble"].as_array().is_some_and(|s| s.iter().any(|x| *x != 999)) {
            v.push(set("scribble", json!(vec![999; order.len()])));
        }
        // shrink the programs that are still used
        let progs = case["programs"].as_array().unwrap();
        let mut used: Vec<usize> = order.iter().map(|x| x.as_u64().unwrap() as usize).collect();
        used.sort_unstable();
        used.dedup();
        for pi in used {
            let p = prog::block_from_json(&progs[pi]["prog"]);
            for cand in prog::shrink_candidates(&p, 120) {
                let mut ps = progs.clone();
                ps[pi]["prog"] = prog::block_to_json(&cand);
                // layout twins shrink together (they must keep the same length)
                if let Some(t) = progs[pi]["twin"].as_u64()
                    && (t as usize) < ps.len()
                {
                    ps[t as usize]["prog"] = prog::block_to_json(&cand);
                }
                v.push(set("programs", json!(ps)));
            }
        }
        v
    }

    fn concretise(&self, case: &Value, _r: &RunResult, final_: bool) -> Value {
        let mut c = case.clone();
        if final_ {
            if case["kind"] == "cli" {
                c["source"] = json!(source_of(&case["program"]));
            } else {
                let progs = case["programs"].as_array().unwrap();
                c["sources"] = json!(progs.iter().map(source_of).collect::<Vec<_>>());
            }
        }
        c
    }

    fn classify_crash(&self, how: &str, tail: &str, stage: &str) -> Verdict {
        if stage.starts_with("alone") || stage == "predict" {
            return Verdict::Discard(format!("isolated-run-died: {}", crash_kind(tail)));
        }
        // in a session an allocation failure is NOT discarded: the same program alone completed
        Verdict::Violation {
            class: "crash".into(),
            msg: format!("interpreter died during {stage} although the same program alone completed ({how}): {}", last_lines(tail, 3)),
        }
    }

    fn sample(&self, case: &Value) -> Value {
        if case["kind"] == "cli" {
            json!({"kind": "cli", "route": case["route"], "bin": case["bin"], "chunks": case["chunks"], "plant": case["program"]["plant"], "source": source_of(&case["program"])})
        } else {
            let progs = case["programs"].as_array().unwrap();
            json!({"kind": "session", "order": case["order"], "scribble": case["scribble"], "wasm_like": case["wasm_like"],
                   "plants": progs.iter().map(|p| p["plant"].clone()).collect::<Vec<_>>(), "first_source": source_of(&progs[0])})
        }
    }

    fn rule(&self) -> String {
        "two kinds of case. (a) session (2 of 3): 1-6 generated programs (the C02 generator; 45 % carry a planted lexical, syntax, \
         static, warning-only or runtime error at an arbitrary top-level position: unterminated string, stray character, missing \
         name, undeclared variable, comot/return outside, duplicate function, wrong arity, reserved name, unused variable, dead code, \
         division by zero, index out of bounds, non-whole index, method on a dynamic number, unbounded recursion) run 2-12 times in \
         a seeded order with repeats in ONE process through a call-for-call native replica of the playground entry point \
         (init, scratch_arena(None), scratch_arena(Some)), with faults between runs: decommit turned into a no-op as on wasm so \
         stale bytes survive, and every committed byte of both global arenas overwritten with a seeded junk byte. Each run's ending \
         and rendered text must equal the same program alone on fresh separate arenas; repeats must be identical. \
         (b) CLI (1 of 3): the real un-hooked naija binary (dev; release too in thorough) via file / --eval / '-' with stdin written \
         in seeded chunk sizes; stdout bytes and exit status against the library prediction (warnings render + one line per printed \
         value + runtime diagnostics render, 0 iff no error diagnostic). Every case is non-trivial; distinct = hash of the case."
            .into()
    }
    fn assumptions(&self) -> Vec<String> {
        vec![
            "(a) the playground entry point is a native replica of wasm/src/lib.rs::run_source (that crate only compiles for wasm): an edit confined to wasm/src/lib.rs is not seen".into(),
            "(b) has no schedule or fault to search apart from stdin chunking (which the kernel may coalesce): it is configuration differential testing and labelled so".into(),
            "(b) predicts with the hooked library build; the hooks are inert without an installed simulation".into(),
        ]
    }
    fn components(&self) -> Value {
        json!({"real": ["src/arena/scratch.rs (init, scratch_arena, ScratchArena::drop)", "src/arena/debug.rs", "whole pipeline", "(b) target/cli/*/naija built from /repo with the guard off: src/bin/naija/{main,cmd}.rs"],
               "stub": ["(a) the playground entry point (native replica)", "(a) decommit as a no-op / scribbling via fake_libc"]})
    }
}
