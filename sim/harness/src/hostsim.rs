//! `hostsim`: runs a closure as the main task of a simulated machine — shuttle supplies the
//! controlled tasks, this file supplies the scheduler (seeded, recordable, replayable), and
//! sim/shim/host.rs supplies clock, children and pipes.
use std::sync::{Arc, Mutex};

use naijascript::sys::verif_shim::world;
use serde_json::{Value, json};
use shuttle::scheduler::{Schedule, Scheduler, Task, TaskId};

use crate::rng::Rng;

/// The clock task is always the first task spawned by the harness.
pub const CLOCK_TASK: usize = 1;

#[derive(Clone, Debug)]
pub enum SchedMode {
    /// uniform choice at every scheduling point; with `sticky` % stay on the current task;
    /// with `p_clock` % let simulated time pass although something could run
    Random { seed: u64, p_clock: u64, sticky: u64 },
    /// PCT-style: random task priorities, `depth` priority-change points
    Pct { seed: u64, depth: u64, p_clock: u64, horizon: u64 },
    /// explicit decision list (exact replay); falls back to a fixed policy past its end
    Replay { decisions: Vec<usize> },
    /// (task, run length) segments; a segment whose task cannot run is skipped
    Segments { segs: Vec<(usize, usize)> },
}

impl SchedMode {
    pub fn to_json(&self) -> Value {
        match self {
            SchedMode::Random { seed, p_clock, sticky } => {
                json!({"mode": "random", "seed": seed, "p_clock": p_clock, "sticky": sticky})
            }
            SchedMode::Pct { seed, depth, p_clock, horizon } => {
                json!({"mode": "pct", "seed": seed, "depth": depth, "p_clock": p_clock, "horizon": horizon})
            }
            SchedMode::Replay { decisions } => json!({"mode": "replay", "decisions": decisions}),
            SchedMode::Segments { segs } => {
                json!({"mode": "segments", "segs": segs.iter().map(|(t, n)| json!([t, n])).collect::<Vec<_>>()})
            }
        }
    }
    pub fn from_json(j: &Value) -> SchedMode {
        let g = |k: &str| j[k].as_u64().unwrap_or(0);
        match j["mode"].as_str().unwrap_or("random") {
            "pct" => SchedMode::Pct {
                seed: g("seed"),
                depth: g("depth"),
                p_clock: g("p_clock"),
                horizon: g("horizon").max(1),
            },
            "replay" => SchedMode::Replay {
                decisions: j["decisions"]
                    .as_array()
                    .map(|a| a.iter().map(|x| x.as_u64().unwrap() as usize).collect())
                    .unwrap_or_default(),
            },
            "segments" => SchedMode::Segments {
                segs: j["segs"]
                    .as_array()
                    .map(|a| {
                        a.iter()
                            .map(|x| (x[0].as_u64().unwrap() as usize, x[1].as_u64().unwrap() as usize))
                            .collect()
                    })
                    .unwrap_or_default(),
            },
            _ => SchedMode::Random { seed: g("seed"), p_clock: g("p_clock"), sticky: g("sticky") },
        }
    }
}

pub fn segments(d: &[usize]) -> Vec<(usize, usize)> {
    let mut v: Vec<(usize, usize)> = vec![];
    for &t in d {
        match v.last_mut() {
            Some((lt, n)) if *lt == t => *n += 1,
            _ => v.push((t, 1)),
        }
    }
    v
}

enum State {
    Random { r: Rng, p_clock: u64, sticky: u64 },
    Pct { r: Rng, p_clock: u64, prio: Vec<u64>, change_at: Vec<u64>, step: u64, low: u64 },
    Replay { decisions: Vec<usize>, k: usize },
    Segments { segs: Vec<(usize, usize)>, si: usize, used: usize },
}

struct Sched {
    /// pure discrete-event time: the clock may only run when nothing else can
    strict_clock: bool,
    st: State,
    started: bool,
    rec: Arc<Mutex<Vec<usize>>>,
    diverged: Arc<Mutex<u64>>,
}

impl Scheduler for Sched {
    fn new_execution(&mut self) -> Option<Schedule> {
        if self.started {
            None
        } else {
            self.started = true;
            Some(Schedule::new(0))
        }
    }

    fn next_task(&mut self, runnable: &[&Task], cur: Option<TaskId>, _yielding: bool) -> Option<TaskId> {
        let ids: Vec<usize> = runnable.iter().map(|t| usize::from(t.id())).collect();
        let others: Vec<usize> = ids.iter().copied().filter(|t| *t != CLOCK_TASK).collect();
        let cur = cur.map(usize::from);
        // fixed fallback policy: stay, else the lowest runnable id, the clock last
        let fallback = || match cur {
            Some(c) if others.contains(&c) => c,
            _ => others.iter().copied().min().unwrap_or(CLOCK_TASK),
        };
        let pick = match &mut self.st {
            State::Random { r, p_clock, sticky } => {
                if others.is_empty() {
                    CLOCK_TASK
                } else if ids.contains(&CLOCK_TASK) && *p_clock > 0 && r.below(100) < *p_clock {
                    CLOCK_TASK
                } else if let Some(c) = cur.filter(|c| others.contains(c))
                    && *sticky > 0
                    && r.below(100) < *sticky
                {
                    c
                } else {
                    others[r.below(others.len() as u64) as usize]
                }
            }
            State::Pct { r, p_clock, prio, change_at, step, low } => {
                *step += 1;
                for &t in &ids {
                    while prio.len() <= t {
                        let p = 1_000 + r.below(1_000_000);
                        prio.push(p);
                    }
                }
                if others.is_empty() {
                    CLOCK_TASK
                } else if ids.contains(&CLOCK_TASK) && *p_clock > 0 && r.below(100) < *p_clock {
                    CLOCK_TASK
                } else {
                    let mut best = *others.iter().max_by_key(|t| prio[**t]).unwrap();
                    if change_at.contains(step) {
                        // the task that would run is pushed below everybody else
                        *low = low.saturating_sub(1);
                        prio[best] = *low;
                        best = *others.iter().max_by_key(|t| prio[**t]).unwrap();
                    }
                    best
                }
            }
            State::Replay { decisions, k } => {
                let want = decisions.get(*k).copied();
                *k += 1;
                match want {
                    Some(w) if ids.contains(&w) && !(self.strict_clock && w == CLOCK_TASK && !others.is_empty()) => w,
                    Some(_) => {
                        *self.diverged.lock().unwrap() += 1;
                        fallback()
                    }
                    None => fallback(),
                }
            }
            State::Segments { segs, si, used } => loop {
                match segs.get(*si) {
                    Some(&(t, len))
                        if *used < len
                            && ids.contains(&t)
                            && !(self.strict_clock && t == CLOCK_TASK && !others.is_empty()) =>
                    {
                        *used += 1;
                        break t;
                    }
                    Some(_) => {
                        *si += 1;
                        *used = 0;
                    }
                    None => break fallback(),
                }
            },
        };
        self.rec.lock().unwrap().push(pick);
        Some(TaskId::from(pick))
    }

    fn next_u64(&mut self) -> u64 {
        0
    }
}

pub struct HostRun {
    pub decisions: Vec<usize>,
    pub diverged: u64,
    /// a task panicked, the step budget ran out, or shuttle detected a deadlock
    pub panic: Option<String>,
}

/// Runs `body` as the main task of a fresh simulated machine. The world stays installed until
/// every task of the execution has ended.
pub fn run_in_sim<F>(
    cfg: world::Config,
    sched: &SchedMode,
    strict_clock: bool,
    max_steps: usize,
    body: F,
) -> HostRun
where
    F: FnOnce() + Send + 'static,
{
    let rec = Arc::new(Mutex::new(Vec::new()));
    let diverged = Arc::new(Mutex::new(0u64));
    let st = match sched {
        SchedMode::Random { seed, p_clock, sticky } => {
            State::Random { r: Rng(*seed), p_clock: *p_clock, sticky: *sticky }
        }
        SchedMode::Pct { seed, depth, p_clock, horizon } => {
            let mut r = Rng(*seed);
            let change_at = (0..*depth).map(|_| 1 + r.below(*horizon)).collect();
            State::Pct { r, p_clock: *p_clock, prio: vec![], change_at, step: 0, low: 900 }
        }
        SchedMode::Replay { decisions } => State::Replay { decisions: decisions.clone(), k: 0 },
        SchedMode::Segments { segs } => State::Segments { segs: segs.clone(), si: 0, used: 0 },
    };
    let sched = Sched { strict_clock, st, started: false, rec: rec.clone(), diverged: diverged.clone() };
    let mut scfg = shuttle::Config::new();
    // room for the interpreter's own 4 MiB recursion budget
    scfg.stack_size = 12 << 20;
    scfg.failure_persistence = shuttle::FailurePersistence::None;
    scfg.max_steps = shuttle::MaxSteps::FailAfter(max_steps);
    let runner = shuttle::Runner::new(sched, scfg);
    // shuttle wants a re-runnable closure; there is exactly one execution
    let body = Mutex::new(Some(body));
    let r = std::panic::catch_unwind(std::panic::AssertUnwindSafe(|| {
        runner.run(move || {
            let body = body.lock().unwrap().take().expect("single execution");
            let w = world::new(cfg.clone());
            world::install(w);
            world::set_actor(world::actor::RUNNER);
            let clock = shuttle::thread::spawn(|| {
                world::set_actor(world::actor::CLOCK);
                world::clock_task();
            });
            body();
            world::kill_stragglers();
            world::shutdown();
            clock.join().unwrap();
        })
    }));
    world::uninstall();
    let panic = r.err().map(|e| {
        e.downcast_ref::<String>()
            .cloned()
            .or_else(|| e.downcast_ref::<&str>().map(|s| (*s).to_string()))
            .unwrap_or_else(|| "panic".into())
    });
    let decisions = rec.lock().unwrap().clone();
    let diverged = *diverged.lock().unwrap();
    HostRun { decisions, diverged, panic }
}

/// Snapshot of one simulated child, taken by the body before cleanup.
#[derive(Clone, Debug, Default)]
pub struct ProcObs {
    pub req: world::SpawnRequest,
    pub exit: Option<Option<i32>>,
    pub killed: bool,
    pub kill_calls: u32,
    pub reaped: bool,
    pub written: [Vec<u8>; 3],
    pub stdin_sent: Vec<u8>,
    pub delivered: [Vec<u8>; 3],
    pub last_try_wait_running: Option<bool>,
    pub read_after_drop: bool,
    pub exit_at: u64,
    pub spawn_at: u64,
}

#[derive(Clone, Debug, Default)]
pub struct WorldObs {
    pub procs: Vec<ProcObs>,
    pub now_ms: u64,
    pub spawn_attempts: u32,
    pub spawn_failures: u32,
    pub trace_hash: u64,
    pub events: u64,
    pub elapsed_reads: Vec<u64>,
    pub jitter_advances: u64,
    pub short_reads: u64,
    pub short_writes: u64,
    pub injected_read_errors: u64,
    pub pipe_full_blocks: u64,
    pub flag_ops: u64,
    pub runner_start: Option<u64>,
    pub log: Vec<world::Event>,
}

pub fn observe() -> WorldObs {
    let w = world::get();
    let st = w.st.lock().unwrap();
    WorldObs {
        procs: st
            .procs
            .iter()
            .map(|p| ProcObs {
                req: p.req.clone(),
                exit: p.exit,
                killed: p.killed,
                kill_calls: p.kill_calls,
                reaped: p.reaped,
                written: p.written.clone(),
                stdin_sent: p.stdin_sent.clone(),
                delivered: p.delivered.clone(),
                last_try_wait_running: p.last_try_wait_running,
                read_after_drop: p.read_after_drop,
                exit_at: p.exit_at,
                spawn_at: p.spawn_at,
            })
            .collect(),
        now_ms: st.now_ms,
        spawn_attempts: st.spawn_attempts,
        spawn_failures: st.spawn_failures,
        trace_hash: st.trace_hash,
        events: st.events,
        elapsed_reads: st.elapsed_reads.clone(),
        jitter_advances: st.jitter_advances,
        short_reads: st.short_reads,
        short_writes: st.short_writes,
        injected_read_errors: st.injected_read_errors,
        pipe_full_blocks: st.pipe_full_blocks,
        flag_ops: st.flag_ops,
        runner_start: st.runner_start,
        log: st.log.clone(),
    }
}

pub fn render_log(log: &[world::Event]) -> Vec<String> {
    use world::{actor, op};
    log.iter()
        .map(|e| {
            let who = match e.actor {
                actor::RUNNER => "runner",
                actor::CLOCK => "clock",
                actor::CHILD => "child",
                actor::WRITER => "stdin-writer",
                actor::READER_OUT => "stdout-reader",
                actor::READER_ERR => "stderr-reader",
                _ => "thread",
            };
            let what = match e.op {
                op::SPAWN => format!("spawn pid={}", e.a),
                op::SPAWN_FAIL => format!("spawn fails errno={}", e.b),
                op::TRY_WAIT => format!("try_wait -> {}", if e.b == 1 { "exited" } else { "running" }),
                op::WAIT => "wait -> reaped".to_string(),
                op::KILL => "kill".to_string(),
                op::NOW => "Instant::now".to_string(),
                op::ELAPSED => format!("elapsed -> {} ms", e.a),
                op::SLEEP => format!("sleep {} ms", e.a),
                op::WAKE => "wake".to_string(),
                op::PIPE_WRITE => format!("write fd{} {} bytes", e.a, e.b),
                op::PIPE_READ => format!("read fd{} {} bytes", e.a, e.b),
                op::PIPE_EOF => format!("read fd{} EOF", e.a),
                op::PIPE_EPIPE => format!("write fd{} EPIPE", e.a),
                op::PIPE_CLOSE_W => format!("close write end fd{}", e.a),
                op::PIPE_CLOSE_R => format!("close read end fd{}", e.a),
                op::CHILD_EXIT => format!("exit {}", if e.b == u64::MAX { "by signal".into() } else { e.b.to_string() }),
                op::FLAG_LOAD => format!("overflow.load -> {}", e.a),
                op::FLAG_CAS => format!("overflow.cas({}) ok={}", e.a, e.b),
                op::READ_ERR => format!("read fd{} fails errno={}", e.a, e.b),
                op::TIMER_FIRE => format!("timer {} fires", e.a),
                op::THREAD_SPAWN => format!("spawn thread kind={}", e.a),
                op::THREAD_JOIN => "join".to_string(),
                _ => format!("op{}", e.op),
            };
            format!("t={:<5} {:<13} {}", e.now, who, what)
        })
        .collect()
}

/// Candidate schedules with a run of segments deleted: halves, quarters, ... and single
/// segments only when few are left. Bounded so that a long schedule cannot explode the
/// minimiser's memory.
pub fn segment_deletions(segs: &[Value]) -> Vec<Vec<Value>> {
    let n = segs.len();
    let mut out = vec![];
    if n <= 1 {
        return out;
    }
    let mut size = n / 2;
    while size >= 1 && out.len() < 40 {
        let mut start = 0;
        while start < n && out.len() < 40 {
            let mut s = segs.to_vec();
            s.drain(start..(start + size).min(n));
            out.push(s);
            start += size;
        }
        if size == 1 {
            break;
        }
        size /= 2;
        if n > 40 && size < n / 16 {
            break;
        }
    }
    out
}

/// Makes the schedule of a failing run an explicit part of the case: segments while
/// minimising, the exact decision list in the replay file. Very long executions (step budget
/// exhausted) keep their seeded scheduler, which is just as repeatable.
pub fn concretise_schedule(case: &Value, r: &crate::common::RunResult, final_: bool) -> Value {
    let mut c = case.clone();
    if let Some(d) = r.detail["decisions"].as_array() {
        if d.len() > 20_000 {
            return c;
        }
        let d: Vec<usize> = d.iter().map(|x| x.as_u64().unwrap() as usize).collect();
        if final_ {
            c["sched"] = SchedMode::Replay { decisions: d }.to_json();
            c["keep_log"] = json!(true);
        } else {
            c["sched"] = SchedMode::Segments { segs: segments(&d) }.to_json();
        }
    }
    c
}
