//! Program IR, renderer, seeded generator, JSON form and structural shrinker for the workloads of
//! memsim (C02) and sessionsim (C14). Programs are typed by construction so that the checker
//! accepts them; loops and recursion are bounded by construction.
use serde_json::{Value, json};

use crate::rng::Rng;

#[derive(Clone, Copy, Debug, PartialEq, Eq)]
pub enum Ty {
    Num,
    Str,
    Bool,
    AStr,
    AAStr,
    Cmd,
    /// process_result
    Res,
}

impl Ty {
    fn name(self) -> &'static str {
        match self {
            Ty::Num => "num",
            Ty::Str => "str",
            Ty::Bool => "bool",
            Ty::AStr => "astr",
            Ty::AAStr => "aastr",
            Ty::Cmd => "cmd",
            Ty::Res => "res",
        }
    }
    fn parse(s: &str) -> Ty {
        match s {
            "num" => Ty::Num,
            "bool" => Ty::Bool,
            "astr" => Ty::AStr,
            "aastr" => Ty::AAStr,
            "cmd" => Ty::Cmd,
            "res" => Ty::Res,
            _ => Ty::Str,
        }
    }
}

#[derive(Clone, Debug)]
pub enum Seg {
    Lit(String),
    Var(String),
}

#[derive(Clone, Debug)]
pub enum EK {
    Num(f64),
    Str(String),
    Bool(bool),
    Var(String),
    Bin(Box<Ex>, String, Box<Ex>),
    Not(Box<Ex>),
    Interp(Vec<Seg>),
    Method(Box<Ex>, String, Vec<Ex>),
    Call(String, Vec<Ex>),
    Builtin(String, Vec<Ex>),
    Arr(Vec<Ex>),
    Index(Box<Ex>, Box<Ex>),
}

#[derive(Clone, Debug)]
pub struct Ex {
    pub ty: Ty,
    pub k: EK,
}

#[derive(Clone, Debug)]
pub enum St {
    Make(String, Ex),
    Assign(String, Ex),
    AssignIndex(Ex, Ex),
    Expr(Ex),
    Shout(Ex),
    If(Ex, Vec<St>, Option<Vec<St>>),
    /// `make c get 0  jasi (c small pass n) start c get c add 1  body end`
    Loop { counter: String, n: u32, body: Vec<St> },
    /// the same loop whose condition also evaluates a string expression (always true):
    /// `jasi ((c small pass n) and (((cond).len() add 1) pass 0))` - temporaries made by the condition itself
    LoopC { counter: String, n: u32, cond: Ex, body: Vec<St> },
    Block(Vec<St>),
    Func { name: String, params: Vec<String>, body: Vec<St> },
    Return(Option<Ex>),
    Break,
    Continue,
    /// raw source line (used by sessionsim to plant errors)
    Raw(String),
}

// ---------------------------------------------------------------- JSON

pub fn ex_to_json(e: &Ex) -> Value {
    let t = e.ty.name();
    let list = |v: &Vec<Ex>| Value::Array(v.iter().map(ex_to_json).collect());
    match &e.k {
        EK::Num(n) => json!({"t": t, "num": n}),
        EK::Str(s) => json!({"t": t, "str": s}),
        EK::Bool(b) => json!({"t": t, "bool": b}),
        EK::Var(v) => json!({"t": t, "var": v}),
        EK::Bin(l, op, r) => json!({"t": t, "bin": [ex_to_json(l), op, ex_to_json(r)]}),
        EK::Not(x) => json!({"t": t, "not": ex_to_json(x)}),
        EK::Interp(segs) => json!({"t": t, "interp": segs.iter().map(|s| match s {
            Seg::Lit(l) => json!({"lit": l}),
            Seg::Var(v) => json!({"var": v}),
        }).collect::<Vec<_>>()}),
        EK::Method(recv, m, args) => json!({"t": t, "method": [ex_to_json(recv), m, list(args)]}),
        EK::Call(f, args) => json!({"t": t, "call": [f, list(args)]}),
        EK::Builtin(f, args) => json!({"t": t, "builtin": [f, list(args)]}),
        EK::Arr(items) => json!({"t": t, "arr": list(items)}),
        EK::Index(a, i) => json!({"t": t, "index": [ex_to_json(a), ex_to_json(i)]}),
    }
}

pub fn ex_from_json(j: &Value) -> Ex {
    let ty = Ty::parse(j["t"].as_str().unwrap_or("str"));
    let list = |v: &Value| -> Vec<Ex> { v.as_array().map(|a| a.iter().map(ex_from_json).collect()).unwrap_or_default() };
    let s = |v: &Value| v.as_str().unwrap_or("").to_string();
    let k = if let Some(n) = j.get("num") {
        EK::Num(n.as_f64().unwrap_or(0.0))
    } else if let Some(x) = j.get("str") {
        EK::Str(s(x))
    } else if let Some(b) = j.get("bool") {
        EK::Bool(b.as_bool().unwrap_or(false))
    } else if let Some(v) = j.get("var") {
        EK::Var(s(v))
    } else if let Some(b) = j.get("bin") {
        EK::Bin(Box::new(ex_from_json(&b[0])), s(&b[1]), Box::new(ex_from_json(&b[2])))
    } else if let Some(x) = j.get("not") {
        EK::Not(Box::new(ex_from_json(x)))
    } else if let Some(x) = j.get("interp") {
        EK::Interp(
            x.as_array()
                .unwrap()
                .iter()
                .map(|g| if let Some(l) = g.get("lit") { Seg::Lit(s(l)) } else { Seg::Var(s(&g["var"])) })
                .collect(),
        )
    } else if let Some(m) = j.get("method") {
        EK::Method(Box::new(ex_from_json(&m[0])), s(&m[1]), list(&m[2]))
    } else if let Some(c) = j.get("call") {
        EK::Call(s(&c[0]), list(&c[1]))
    } else if let Some(c) = j.get("builtin") {
        EK::Builtin(s(&c[0]), list(&c[1]))
    } else if let Some(a) = j.get("arr") {
        EK::Arr(list(a))
    } else if let Some(x) = j.get("index") {
        EK::Index(Box::new(ex_from_json(&x[0])), Box::new(ex_from_json(&x[1])))
    } else {
        EK::Str(String::new())
    };
    Ex { ty, k }
}

pub fn block_to_json(b: &[St]) -> Value {
    Value::Array(b.iter().map(st_to_json).collect())
}
pub fn block_from_json(j: &Value) -> Vec<St> {
    j.as_array().map(|a| a.iter().map(st_from_json).collect()).unwrap_or_default()
}

pub fn st_to_json(s: &St) -> Value {
    match s {
        St::Make(v, e) => json!({"make": [v, ex_to_json(e)]}),
        St::Assign(v, e) => json!({"assign": [v, ex_to_json(e)]}),
        St::AssignIndex(t, e) => json!({"assign_index": [ex_to_json(t), ex_to_json(e)]}),
        St::Expr(e) => json!({"expr": ex_to_json(e)}),
        St::Shout(e) => json!({"shout": ex_to_json(e)}),
        St::If(c, t, e) => json!({"if": [ex_to_json(c), block_to_json(t), e.as_ref().map(|e| block_to_json(e))]}),
        St::Loop { counter, n, body } => json!({"loop": [counter, n, block_to_json(body)]}),
        St::LoopC { counter, n, cond, body } => json!({"loopc": [counter, n, ex_to_json(cond), block_to_json(body)]}),
        St::Block(b) => json!({"block": block_to_json(b)}),
        St::Func { name, params, body } => json!({"func": [name, params, block_to_json(body)]}),
        St::Return(e) => json!({"return": e.as_ref().map(ex_to_json)}),
        St::Break => json!({"break": 0}),
        St::Continue => json!({"continue": 0}),
        St::Raw(t) => json!({"raw": t}),
    }
}

pub fn st_from_json(j: &Value) -> St {
    let s = |v: &Value| v.as_str().unwrap_or("").to_string();
    if let Some(x) = j.get("make") {
        St::Make(s(&x[0]), ex_from_json(&x[1]))
    } else if let Some(x) = j.get("assign") {
        St::Assign(s(&x[0]), ex_from_json(&x[1]))
    } else if let Some(x) = j.get("assign_index") {
        St::AssignIndex(ex_from_json(&x[0]), ex_from_json(&x[1]))
    } else if let Some(x) = j.get("expr") {
        St::Expr(ex_from_json(x))
    } else if let Some(x) = j.get("shout") {
        St::Shout(ex_from_json(x))
    } else if let Some(x) = j.get("if") {
        St::If(ex_from_json(&x[0]), block_from_json(&x[1]), if x[2].is_null() { None } else { Some(block_from_json(&x[2])) })
    } else if let Some(x) = j.get("loop") {
        St::Loop { counter: s(&x[0]), n: x[1].as_u64().unwrap_or(1) as u32, body: block_from_json(&x[2]) }
    } else if let Some(x) = j.get("loopc") {
        St::LoopC { counter: s(&x[0]), n: x[1].as_u64().unwrap_or(1) as u32, cond: ex_from_json(&x[2]), body: block_from_json(&x[3]) }
    } else if let Some(x) = j.get("block") {
        St::Block(block_from_json(x))
    } else if let Some(x) = j.get("func") {
        St::Func {
            name: s(&x[0]),
            params: x[1].as_array().map(|a| a.iter().map(s).collect()).unwrap_or_default(),
            body: block_from_json(&x[2]),
        }
    } else if let Some(x) = j.get("return") {
        St::Return(if x.is_null() { None } else { Some(ex_from_json(x)) })
    } else if j.get("break").is_some() {
        St::Break
    } else if j.get("continue").is_some() {
        St::Continue
    } else {
        St::Raw(s(&j["raw"]))
    }
}

// ---------------------------------------------------------------- render

fn fmt_num(n: f64) -> String {
    if n < 0.0 {
        format!("(minus {})", fmt_num(-n))
    } else if n.fract() == 0.0 && n < 1e15 {
        format!("{}", n as i64)
    } else {
        format!("{n}")
    }
}

fn render_args(args: &[Ex], out: &mut String) {
    for (i, a) in args.iter().enumerate() {
        if i > 0 {
            out.push_str(", ");
        }
        render_ex(a, out);
    }
}

pub fn render_ex(e: &Ex, out: &mut String) {
    match &e.k {
        EK::Num(n) => out.push_str(&fmt_num(*n)),
        EK::Str(s) => {
            out.push('"');
            out.push_str(s);
            out.push('"');
        }
        EK::Bool(b) => out.push_str(if *b { "true" } else { "false" }),
        EK::Var(v) => out.push_str(v),
        EK::Bin(l, op, r) => {
            out.push('(');
            render_ex(l, out);
            out.push(' ');
            out.push_str(op);
            out.push(' ');
            render_ex(r, out);
            out.push(')');
        }
        EK::Not(x) => {
            out.push_str("(not ");
            render_ex(x, out);
            out.push(')');
        }
        EK::Interp(segs) => {
            out.push('"');
            for s in segs {
                match s {
                    Seg::Lit(l) => out.push_str(l),
                    Seg::Var(v) => {
                        out.push('{');
                        out.push_str(v);
                        out.push('}');
                    }
                }
            }
            out.push('"');
        }
        EK::Method(recv, m, args) => {
            render_ex(recv, out);
            out.push('.');
            out.push_str(m);
            out.push('(');
            render_args(args, out);
            out.push(')');
        }
        EK::Call(f, args) | EK::Builtin(f, args) => {
            out.push_str(f);
            out.push('(');
            render_args(args, out);
            out.push(')');
        }
        EK::Arr(items) => {
            out.push('[');
            render_args(items, out);
            out.push(']');
        }
        EK::Index(a, i) => {
            render_ex(a, out);
            out.push('[');
            render_ex(i, out);
            out.push(']');
        }
    }
}

fn ind(out: &mut String, d: usize) {
    for _ in 0..d {
        out.push_str("  ");
    }
}

pub fn render_block(b: &[St], d: usize, out: &mut String) {
    for s in b {
        render_st(s, d, out);
    }
}

pub fn render_st(s: &St, d: usize, out: &mut String) {
    ind(out, d);
    match s {
        St::Make(v, e) => {
            out.push_str("make ");
            out.push_str(v);
            out.push_str(" get ");
            render_ex(e, out);
            out.push('\n');
        }
        St::Assign(v, e) => {
            out.push_str(v);
            out.push_str(" get ");
            render_ex(e, out);
            out.push('\n');
        }
        St::AssignIndex(t, e) => {
            render_ex(t, out);
            out.push_str(" get ");
            render_ex(e, out);
            out.push('\n');
        }
        St::Expr(e) => {
            render_ex(e, out);
            out.push('\n');
        }
        St::Shout(e) => {
            out.push_str("shout(");
            render_ex(e, out);
            out.push_str(")\n");
        }
        St::If(c, t, e) => {
            out.push_str("if to say (");
            render_ex(c, out);
            out.push_str(") start\n");
            render_block(t, d + 1, out);
            ind(out, d);
            out.push_str("end\n");
            if let Some(e) = e {
                ind(out, d);
                out.push_str("if not so start\n");
                render_block(e, d + 1, out);
                ind(out, d);
                out.push_str("end\n");
            }
        }
        St::Loop { counter, n, body } => {
            out.push_str(&format!("make {counter} get 0\n"));
            ind(out, d);
            out.push_str(&format!("jasi ({counter} small pass {n}) start\n"));
            ind(out, d + 1);
            out.push_str(&format!("{counter} get {counter} add 1\n"));
            render_block(body, d + 1, out);
            ind(out, d);
            out.push_str("end\n");
        }
        St::LoopC { counter, n, cond, body } => {
            out.push_str(&format!("make {counter} get 0\n"));
            ind(out, d);
            let mut c = String::new();
            render_ex(cond, &mut c);
            out.push_str(&format!("jasi (({counter} small pass {n}) and ((({c}).len() add 1) pass 0)) start\n"));
            ind(out, d + 1);
            out.push_str(&format!("{counter} get {counter} add 1\n"));
            render_block(body, d + 1, out);
            ind(out, d);
            out.push_str("end\n");
        }
        St::Block(b) => {
            out.push_str("start\n");
            render_block(b, d + 1, out);
            ind(out, d);
            out.push_str("end\n");
        }
        St::Func { name, params, body } => {
            out.push_str(&format!("do {name}({}) start\n", params.join(", ")));
            render_block(body, d + 1, out);
            ind(out, d);
            out.push_str("end\n");
        }
        St::Return(e) => {
            out.push_str("return");
            if let Some(e) = e {
                out.push(' ');
                render_ex(e, out);
            }
            out.push('\n');
        }
        St::Break => out.push_str("comot\n"),
        St::Continue => out.push_str("next\n"),
        St::Raw(t) => {
            out.push_str(t);
            out.push('\n');
        }
    }
}

pub fn render(p: &[St]) -> String {
    let mut s = String::new();
    render_block(p, 0, &mut s);
    s
}

// ---------------------------------------------------------------- generator

/// byte lengths around the pool's size-class boundaries
const LENS: [usize; 20] = [0, 1, 2, 5, 7, 8, 9, 15, 16, 17, 24, 127, 128, 129, 160, 161, 255, 256, 257, 700];
const ALPHA: [&str; 8] = ["a", "b", "x", "7", " ", ",", "é", "日"];

#[derive(Clone)]
struct FuncSig {
    name: String,
    params: Vec<Ty>,
    ret: Ty,
}

pub struct Gen {
    r: Rng,
    n: u32,
    scopes: Vec<Vec<(String, Ty)>>,
    funcs: Vec<Vec<FuncSig>>,
    in_func: Option<Ty>,
    loop_depth: u32,
    in_loop_body: bool,
    budget: i32,
    // swarm switches of this program
    pub use_cmd: bool,
    pub use_nested: bool,
    pub big_strings: bool,
    pub shadowing: bool,
    /// programs may call read_line("") (the harness feeds a simulated stdin)
    pub use_stdin: bool,
    /// programs may run commands (the harness runs them on the simulated host)
    pub use_run: bool,
    /// the configured command the current idiom runs
    run_var: Option<String>,
}

fn ex(ty: Ty, k: EK) -> Ex {
    Ex { ty, k }
}
fn num(n: f64) -> Ex {
    ex(Ty::Num, EK::Num(n))
}
fn var(t: Ty, n: &str) -> Ex {
    ex(t, EK::Var(n.to_string()))
}
fn bin(t: Ty, l: Ex, op: &str, r: Ex) -> Ex {
    ex(t, EK::Bin(Box::new(l), op.to_string(), Box::new(r)))
}
fn method(t: Ty, recv: Ex, m: &str, args: Vec<Ex>) -> Ex {
    ex(t, EK::Method(Box::new(recv), m.to_string(), args))
}
fn index(t: Ty, a: Ex, i: Ex) -> Ex {
    ex(t, EK::Index(Box::new(a), Box::new(i)))
}

impl Gen {
    pub fn new(r: Rng) -> Self {
        let mut r = r;
        let use_cmd = r.chance(50);
        let use_nested = r.chance(60);
        let big_strings = r.chance(55);
        let shadowing = r.chance(40);
        let use_stdin = r.chance(25);
        let use_run = use_cmd && r.chance(50);
        let budget = r.range(15, 70) as i32;
        Gen {
            r,
            n: 0,
            scopes: vec![vec![]],
            funcs: vec![vec![]],
            in_func: None,
            loop_depth: 0,
            in_loop_body: false,
            budget,
            use_cmd,
            use_nested,
            big_strings,
            shadowing,
            use_stdin,
            use_run,
            run_var: None,
        }
    }
    fn fresh(&mut self, p: &str) -> String {
        self.n += 1;
        format!("{p}{}", self.n)
    }
    fn vars(&self, t: Ty) -> Vec<String> {
        // innermost declaration of a name wins (shadowing)
        let mut seen: Vec<&str> = vec![];
        let mut out = vec![];
        for (n, ty) in self.scopes.iter().flatten().rev() {
            if seen.contains(&n.as_str()) {
                continue;
            }
            seen.push(n);
            if *ty == t {
                out.push(n.clone());
            }
        }
        out.reverse();
        out
    }
    fn all_vars(&self) -> Vec<(String, Ty)> {
        let mut seen: Vec<&str> = vec![];
        let mut out = vec![];
        for (n, ty) in self.scopes.iter().flatten().rev() {
            if seen.contains(&n.as_str()) {
                continue;
            }
            seen.push(n);
            out.push((n.clone(), *ty));
        }
        out.reverse();
        out
    }
    fn fns(&self, ret: Ty) -> Vec<FuncSig> {
        self.funcs.iter().flatten().filter(|f| f.ret == ret).cloned().collect()
    }
    fn all_fns(&self) -> Vec<FuncSig> {
        self.funcs.iter().flatten().cloned().collect()
    }

    pub fn lit_string(&mut self) -> String {
        let max = if self.big_strings { LENS.len() } else { 11 };
        let len = LENS[self.r.below(max as u64) as usize];
        let ch = self.r.pick(&ALPHA);
        let mut s = String::new();
        while s.len() + ch.len() <= len {
            s.push_str(ch);
        }
        while s.len() < len {
            s.push('z');
        }
        s
    }
    fn small_sep(&mut self) -> Ex {
        ex(Ty::Str, EK::Str(self.r.pick(&[",", " ", "ab", "-"]).to_string()))
    }

    fn num(&mut self, d: u32) -> Ex {
        let c = self.r.below(100);
        let vs = self.vars(Ty::Num);
        if d > 2 || c < 30 {
            return num(self.r.pick(&[0.0, 1.0, 2.0, 3.0, 7.0, 10.0, 2.5]));
        }
        if c < 50 && !vs.is_empty() {
            return var(Ty::Num, &self.r.pick(&vs));
        }
        if c < 68 {
            let l = self.num(d + 1);
            let r = self.num(d + 1);
            let op = self.r.pick(&["add", "minus", "times"]);
            return bin(Ty::Num, l, op, r);
        }
        if c < 80 {
            let s = self.str(d + 1);
            return method(Ty::Num, s, "len", vec![]);
        }
        if c < 88 {
            let a = self.vars(Ty::AStr);
            if !a.is_empty() {
                return method(Ty::Num, var(Ty::AStr, &self.r.pick(&a)), "len", vec![]);
            }
        }
        if c < 92 {
            let s = self.str(d + 1);
            let n = self.small_sep();
            return method(Ty::Num, s, "find", vec![n]);
        }
        let fs = self.fns(Ty::Num);
        if !fs.is_empty() && d < 2 {
            let f = self.r.pick(&fs);
            return self.call(&f, d);
        }
        num(4.0)
    }

    fn str(&mut self, d: u32) -> Ex {
        let c = self.r.below(100);
        let vs = self.vars(Ty::Str);
        if d > 3 {
            return if !vs.is_empty() && self.r.chance(60) {
                var(Ty::Str, &self.r.pick(&vs))
            } else {
                ex(Ty::Str, EK::Str(self.lit_string()))
            };
        }
        if c < 10 {
            return ex(Ty::Str, EK::Str(self.lit_string()));
        }
        if self.use_stdin && c < 14 {
            // a fresh string allocated in the frame arena by the platform layer
            return ex(Ty::Str, EK::Builtin("read_line".into(), vec![ex(Ty::Str, EK::Str(String::new()))]));
        }
        if self.use_run && c < 26 {
            let rs = self.vars(Ty::Res);
            if !rs.is_empty() {
                // stdout()/stderr()/exit_code() are dynamic (string, number or null): to_string makes a string
                let r = var(Ty::Res, &self.r.pick(&rs));
                let m = self.r.pick(&["stdout", "stderr", "exit_code", "success"]);
                return ex(Ty::Str, EK::Builtin("to_string".into(), vec![method(Ty::Str, r, m, vec![])]));
            }
        }
        if c < 30 && !vs.is_empty() {
            return var(Ty::Str, &self.r.pick(&vs));
        }
        if c < 46 {
            let l = self.str(d + 1);
            let r = self.str(d + 1);
            return bin(Ty::Str, l, "add", r);
        }
        if c < 50 {
            let l = self.str(d + 1);
            let r = self.num(d + 1);
            return if self.r.chance(50) { bin(Ty::Str, l, "add", r) } else { bin(Ty::Str, r, "add", l) };
        }
        if c < 57 {
            // interpolation over any visible variable
            let all: Vec<String> = self.all_vars().into_iter().map(|(n, _)| n).collect();
            if !all.is_empty() {
                let mut segs = vec![];
                for _ in 0..self.r.range(1, 3) {
                    if self.r.chance(50) {
                        segs.push(Seg::Lit(self.lit_string()));
                    }
                    segs.push(Seg::Var(self.r.pick(&all)));
                }
                if self.r.chance(50) {
                    segs.push(Seg::Lit("!".into()));
                }
                return ex(Ty::Str, EK::Interp(segs));
            }
        }
        if c < 66 {
            let recv = self.str(d + 1);
            let (m, args): (&str, Vec<Ex>) = match self.r.below(6) {
                0 => ("to_uppercase", vec![]),
                1 => ("to_lowercase", vec![]),
                2 => ("trim", vec![]),
                3 => ("slice", vec![num(self.r.pick(&[0.0, 1.0, -3.0])), num(self.r.pick(&[2.0, 9.0, 300.0, -1.0]))]),
                4 => {
                    let a = self.small_sep();
                    let b = self.str(d + 2);
                    ("replace", vec![a, b])
                }
                _ => ("trim", vec![]),
            };
            return method(Ty::Str, recv, m, args);
        }
        if c < 70 {
            let n = self.num(d + 1);
            return ex(Ty::Str, EK::Builtin("to_string".into(), vec![n]));
        }
        if c < 74 {
            let a = self.astr(d + 1);
            return if self.r.chance(70) {
                let s = self.small_sep();
                method(Ty::Str, a, "join", vec![s])
            } else {
                ex(Ty::Str, EK::Builtin("to_string".into(), vec![a]))
            };
        }
        if c < 82 {
            let a = self.vars(Ty::AStr);
            if !a.is_empty() {
                let v = var(Ty::AStr, &self.r.pick(&a));
                let idx = if self.r.chance(70) {
                    num(0.0)
                } else {
                    bin(Ty::Num, method(Ty::Num, v.clone(), "len", vec![]), "minus", num(1.0))
                };
                return index(Ty::Str, v, idx);
            }
        }
        if c < 86 {
            let a = self.vars(Ty::AAStr);
            if !a.is_empty() {
                let v = var(Ty::AAStr, &self.r.pick(&a));
                let i0 = index(Ty::AStr, v, num(0.0));
                return index(Ty::Str, i0, num(0.0));
            }
        }
        if c < 88 {
            let any = self.any(d + 1);
            return ex(Ty::Str, EK::Builtin("typeof".into(), vec![any]));
        }
        let fs = self.fns(Ty::Str);
        if !fs.is_empty() && d < 3 {
            let f = self.r.pick(&fs);
            return self.call(&f, d);
        }
        let l = ex(Ty::Str, EK::Str(self.lit_string()));
        let r = ex(Ty::Str, EK::Str(self.lit_string()));
        bin(Ty::Str, l, "add", r)
    }

    fn boolean(&mut self, d: u32) -> Ex {
        let c = self.r.below(100);
        if c < 30 {
            let l = self.num(d + 1);
            let r = self.num(d + 1);
            let op = self.r.pick(&["na", "pass", "small pass"]);
            return bin(Ty::Bool, l, op, r);
        }
        if c < 50 {
            let l = self.str(d + 1);
            let r = self.str(d + 1);
            let op = self.r.pick(&["na", "pass", "small pass"]);
            return bin(Ty::Bool, l, op, r);
        }
        if c < 60 {
            return ex(Ty::Bool, EK::Bool(self.r.chance(50)));
        }
        if c < 72 && d < 2 {
            let l = self.boolean(d + 1);
            let r = self.boolean(d + 1);
            let op = self.r.pick(&["and", "or"]);
            return bin(Ty::Bool, l, op, r);
        }
        if c < 80 && d < 2 {
            let x = self.boolean(d + 1);
            return ex(Ty::Bool, EK::Not(Box::new(x)));
        }
        let vs = self.vars(Ty::Bool);
        if !vs.is_empty() && c < 88 {
            return var(Ty::Bool, &self.r.pick(&vs));
        }
        let s = self.str(d + 1);
        bin(Ty::Bool, method(Ty::Num, s, "len", vec![]), "pass", num(3.0))
    }

    fn astr(&mut self, d: u32) -> Ex {
        let c = self.r.below(100);
        let vs = self.vars(Ty::AStr);
        if c < 30 && !vs.is_empty() {
            return var(Ty::AStr, &self.r.pick(&vs));
        }
        if c < 40 && d < 2 {
            let s = self.str(d + 1);
            let sep = self.small_sep();
            return method(Ty::AStr, s, "split", vec![sep]);
        }
        let fs = self.fns(Ty::AStr);
        if c < 55 && !fs.is_empty() && d < 2 {
            let f = self.r.pick(&fs);
            return self.call(&f, d);
        }
        let a = self.vars(Ty::AAStr);
        if c < 65 && !a.is_empty() {
            let v = var(Ty::AAStr, &self.r.pick(&a));
            return index(Ty::AStr, v, num(0.0));
        }
        let n = self.r.range(1, 4);
        ex(Ty::AStr, EK::Arr((0..n).map(|_| self.str(d + 1)).collect()))
    }

    fn aastr(&mut self, d: u32) -> Ex {
        let vs = self.vars(Ty::AAStr);
        if !vs.is_empty() && self.r.chance(30) {
            return var(Ty::AAStr, &self.r.pick(&vs));
        }
        let fs = self.fns(Ty::AAStr);
        if !fs.is_empty() && d < 2 && self.r.chance(25) {
            let f = self.r.pick(&fs);
            return self.call(&f, d);
        }
        let n = self.r.range(1, 3);
        ex(Ty::AAStr, EK::Arr((0..n).map(|_| self.astr(d + 1)).collect()))
    }

    fn cmd(&mut self, d: u32) -> Ex {
        let vs = self.vars(Ty::Cmd);
        if !vs.is_empty() && self.r.chance(40) {
            return var(Ty::Cmd, &self.r.pick(&vs));
        }
        let fs = self.fns(Ty::Cmd);
        if !fs.is_empty() && d < 2 && self.r.chance(40) {
            let f = self.r.pick(&fs);
            return self.call(&f, d);
        }
        let s = self.str(d + 1);
        ex(Ty::Cmd, EK::Builtin("command".into(), vec![s]))
    }

    fn any(&mut self, d: u32) -> Ex {
        let t = self.pick_ty();
        self.expr(t, d)
    }
    fn pick_ty(&mut self) -> Ty {
        let mut ts = vec![Ty::Str, Ty::Str, Ty::Str, Ty::Num, Ty::AStr, Ty::AStr, Ty::AAStr, Ty::Bool];
        if self.use_cmd {
            ts.push(Ty::Cmd);
        }
        if self.use_run {
            ts.push(Ty::Res);
            ts.push(Ty::Res);
        }
        self.r.pick(&ts)
    }
    pub fn expr(&mut self, t: Ty, d: u32) -> Ex {
        match t {
            Ty::Num => self.num(d),
            Ty::Str => self.str(d),
            Ty::Bool => self.boolean(d),
            Ty::AStr => self.astr(d),
            Ty::AAStr => self.aastr(d),
            Ty::Cmd => self.cmd(d),
            Ty::Res => self.res(d),
        }
    }
    fn res(&mut self, d: u32) -> Ex {
        let vs = self.vars(Ty::Res);
        if !vs.is_empty() && self.r.chance(50) {
            return var(Ty::Res, &self.r.pick(&vs));
        }
        let fs = self.fns(Ty::Res);
        if !fs.is_empty() && d < 2 && self.r.chance(40) {
            let f = self.r.pick(&fs);
            return self.call(&f, d);
        }
        // run a freshly configured command: both streams captured so the accessors return strings
        let c = self.cmd(d + 1);
        method(Ty::Res, c, "run", vec![])
    }
    fn call(&mut self, f: &FuncSig, d: u32) -> Ex {
        let args = f.params.clone().into_iter().map(|t| self.expr(t, d + 1)).collect();
        ex(f.ret, EK::Call(f.name.clone(), args))
    }

    fn block(&mut self, n: u64, loop_body: bool) -> Vec<St> {
        self.scopes.push(vec![]);
        self.funcs.push(vec![]);
        let old = self.in_loop_body;
        if loop_body {
            self.in_loop_body = true;
        }
        let mut out = vec![];
        for _ in 0..n {
            self.stmt(&mut out);
        }
        self.in_loop_body = old;
        self.funcs.pop();
        self.scopes.pop();
        out
    }

    fn stmt(&mut self, out: &mut Vec<St>) {
        self.budget -= 1;
        if self.budget <= 0 {
            let e = self.str(3);
            out.push(St::Shout(e));
            return;
        }
        let c = self.r.below(100);
        if c < 16 {
            let t = self.pick_ty();
            // shadowing / re-declaration: reuse a visible name of the same type
            let same: Vec<String> = self.vars(t).into_iter().filter(|n| !n.starts_with('c') && !n.starts_with('p')).collect();
            let v = if self.shadowing && !same.is_empty() && self.r.chance(35) { self.r.pick(&same) } else { self.fresh("v") };
            let e = self.expr(t, 0);
            out.push(St::Make(v.clone(), e));
            self.scopes.last_mut().unwrap().push((v, t));
        } else if c < 32 {
            let cands: Vec<(String, Ty)> = self.all_vars().into_iter().filter(|(n, _)| !n.starts_with('c')).collect();
            if !cands.is_empty() {
                let (v, t) = self.r.pick(&cands);
                let e = self.expr(t, 0);
                out.push(St::Assign(v, e));
            }
        } else if c < 42 {
            let e = self.any(0);
            out.push(St::Shout(e));
        } else if c < 52 {
            let a = self.vars(Ty::AStr);
            if !a.is_empty() {
                let v = var(Ty::AStr, &self.r.pick(&a));
                match self.r.below(100) {
                    0..=44 => {
                        let e = self.str(0);
                        out.push(St::Expr(method(Ty::Num, v, "push", vec![e])));
                    }
                    45..=59 => {
                        let e = self.str(0);
                        out.push(St::AssignIndex(index(Ty::Str, v, num(0.0)), e));
                    }
                    60..=74 => out.push(St::Expr(method(Ty::Num, v, "reverse", vec![]))),
                    _ => {
                        let cond = bin(Ty::Bool, method(Ty::Num, v.clone(), "len", vec![]), "pass", num(1.0));
                        let pop = method(Ty::Str, v.clone(), "pop", vec![]);
                        let body = match self.r.below(4) {
                            0 => St::Shout(pop),
                            1 => St::Expr(pop),
                            2 => St::AssignIndex(index(Ty::Str, v, num(0.0)), pop),
                            _ => {
                                let w = self.fresh("v");
                                let again = bin(Ty::Str, var(Ty::Str, &w), "add", ex(Ty::Str, EK::Str("+".into())));
                                St::Block(vec![St::Make(w, pop), St::Expr(method(Ty::Num, v, "push", vec![again]))])
                            }
                        };
                        out.push(St::If(cond, vec![body], None));
                    }
                }
            }
        } else if c < 57 {
            let a = self.vars(Ty::AAStr);
            if !a.is_empty() {
                let v = var(Ty::AAStr, &self.r.pick(&a));
                let i0 = index(Ty::AStr, v.clone(), num(0.0));
                match self.r.below(4) {
                    0 => {
                        let e = self.str(0);
                        out.push(St::AssignIndex(index(Ty::Str, i0, num(0.0)), e));
                    }
                    1 => {
                        let e = self.str(0);
                        out.push(St::Expr(method(Ty::Num, i0, "push", vec![e])));
                    }
                    2 => {
                        let e = self.astr(0);
                        out.push(St::AssignIndex(i0, e));
                    }
                    _ => {
                        let e = self.astr(0);
                        out.push(St::Expr(method(Ty::Num, v, "push", vec![e])));
                    }
                }
            }
        } else if c < 61 && self.use_cmd {
            let cm = self.vars(Ty::Cmd);
            if !cm.is_empty() {
                let v = var(Ty::Cmd, &self.r.pick(&cm));
                let e = self.str(0);
                let (m, args) = match self.r.below(7) {
                    0 => ("arg", vec![e]),
                    1 => ("env", vec![ex(Ty::Str, EK::Str("K".into())), e]),
                    2 => ("cwd", vec![e]),
                    3 => ("stdout_capture", vec![]),
                    4 => ("stderr_capture", vec![]),
                    5 => ("stdin_null", vec![]),
                    _ => ("stdin_text", vec![e]),
                };
                out.push(St::Expr(method(Ty::Num, v, m, args)));
            }
        } else if c < 70 {
            let cond = self.boolean(0);
            let n = self.r.range(1, 3);
            let t = self.block(n, false);
            let e = if self.r.chance(40) {
                let n = self.r.range(1, 2);
                Some(self.block(n, false))
            } else {
                None
            };
            out.push(St::If(cond, t, e));
        } else if c < 80 && self.loop_depth < 2 {
            let counter = self.fresh("c");
            let n = self.r.range(1, 3) as u32;
            self.scopes.last_mut().unwrap().push((counter.clone(), Ty::Num));
            self.loop_depth += 1;
            let k = self.r.range(1, 4);
            let body = self.block(k, true);
            self.loop_depth -= 1;
            if self.r.chance(40) {
                let cond = self.str(1);
                out.push(St::LoopC { counter, n, cond, body });
            } else {
                out.push(St::Loop { counter, n, body });
            }
        } else if c < 83 {
            let n = self.r.range(1, 3);
            let b = self.block(n, false);
            out.push(St::Block(b));
        } else if c < 91 {
            let fs = self.all_fns();
            if !fs.is_empty() {
                let f = self.r.pick(&fs);
                let e = self.call(&f, 0);
                out.push(St::Expr(e));
            }
        } else if c < 95 && self.in_func.is_some() {
            let t = self.in_func.unwrap();
            let e = self.expr(t, 0);
            out.push(St::Return(Some(e)));
        } else if self.in_loop_body && self.loop_depth > 0 && c < 98 {
            let cond = self.boolean(0);
            let s = if self.r.chance(50) { St::Break } else { St::Continue };
            out.push(St::If(cond, vec![s], None));
        } else if self.use_nested && self.in_func.is_some() && self.funcs.len() < 4 {
            let f = self.func();
            out.push(f);
        } else {
            let e = self.str(0);
            out.push(St::Shout(e));
        }
    }

    fn func(&mut self) -> St {
        let name = self.fresh("f");
        let npar = self.r.below(4);
        let params: Vec<Ty> = (0..npar)
            .map(|_| {
                let mut ts = vec![Ty::Str, Ty::Str, Ty::Num, Ty::AStr, Ty::AStr, Ty::AAStr];
                if self.use_cmd {
                    ts.push(Ty::Cmd);
                }
                if self.use_run {
                    ts.push(Ty::Res);
                }
                self.r.pick(&ts)
            })
            .collect();
        let mut rts = vec![Ty::Str, Ty::Str, Ty::Str, Ty::AStr, Ty::AStr, Ty::Num, Ty::AAStr];
        if self.use_cmd {
            rts.push(Ty::Cmd);
        }
        if self.use_run {
            rts.push(Ty::Res);
        }
        let ret = self.r.pick(&rts);
        let pnames: Vec<String> = params.iter().map(|_| self.fresh("p")).collect();
        self.scopes.push(pnames.iter().cloned().zip(params.iter().copied()).collect());
        self.scopes.push(vec![]);
        self.funcs.push(vec![]);
        let (pf, pl, pb) = (self.in_func, self.loop_depth, self.in_loop_body);
        self.in_func = Some(ret);
        self.loop_depth = 0;
        self.in_loop_body = false;
        let mut body = vec![];
        for _ in 0..self.r.range(1, 5) {
            self.stmt(&mut body);
        }
        let n = self.scopes.len();
        let cands: Vec<String> =
            self.scopes[n - 2..].iter().flatten().filter(|(_, t)| *t == ret).map(|(n, _)| n.clone()).collect();
        let e = if !cands.is_empty() && self.r.chance(60) { var(ret, &self.r.pick(&cands)) } else { self.expr(ret, 0) };
        body.push(St::Return(Some(e)));
        self.in_func = pf;
        self.loop_depth = pl;
        self.in_loop_body = pb;
        self.funcs.pop();
        self.scopes.pop();
        self.scopes.pop();
        self.funcs.last_mut().unwrap().push(FuncSig { name: name.clone(), params, ret });
        St::Func { name, params: pnames, body }
    }

    /// Recursive accumulator template: returns its (string or array) parameter after n pushes/concats.
    fn rec_func(&mut self) -> St {
        let name = self.fresh("r");
        let arr = self.r.chance(50);
        let (n, acc) = (self.fresh("p"), self.fresh("p"));
        let accv = var(if arr { Ty::AStr } else { Ty::Str }, &acc);
        self.scopes.push(vec![(n.clone(), Ty::Num), (acc.clone(), accv.ty)]);
        let piece = self.str(2);
        self.scopes.pop();
        let nvar = var(Ty::Num, &n);
        let dec = bin(Ty::Num, nvar.clone(), "minus", num(1.0));
        // depth is clamped so that recursion stays shallow
        let mut body = vec![
            St::If(bin(Ty::Bool, nvar.clone(), "pass", num(4.0)), vec![St::Assign(n.clone(), num(4.0))], None),
            St::If(bin(Ty::Bool, nvar, "small pass", num(1.0)), vec![St::Return(Some(accv.clone()))], None),
        ];
        let rec_arg = if arr {
            body.push(St::Expr(method(Ty::Num, accv.clone(), "push", vec![piece])));
            accv.clone()
        } else {
            bin(Ty::Str, accv.clone(), "add", piece)
        };
        body.push(St::Return(Some(ex(accv.ty, EK::Call(name.clone(), vec![dec, rec_arg])))));
        self.funcs.last_mut().unwrap().push(FuncSig { name: name.clone(), params: vec![Ty::Num, accv.ty], ret: accv.ty });
        St::Func { name, params: vec![n, acc], body }
    }

    /// A value of type `t` that is certainly computed at run time (lives in frame or pool memory).
    fn fresh_val(&mut self, t: Ty) -> Ex {
        match t {
            Ty::Str => {
                let l = self.str(2);
                let lit = ex(Ty::Str, EK::Str(self.lit_string()));
                bin(Ty::Str, l, "add", lit)
            }
            Ty::AStr => {
                let n = self.r.range(1, 3);
                ex(Ty::AStr, EK::Arr((0..n).map(|_| self.fresh_val(Ty::Str)).collect()))
            }
            Ty::AAStr => {
                let a = self.fresh_val(Ty::AStr);
                let b = self.fresh_val(Ty::AStr);
                ex(Ty::AAStr, EK::Arr(vec![a, b]))
            }
            Ty::Cmd => {
                let s = self.fresh_val(Ty::Str);
                ex(Ty::Cmd, EK::Builtin("command".into(), vec![s]))
            }
            Ty::Res => {
                let c = match &self.run_var {
                    Some(k) => var(Ty::Cmd, k),
                    None => self.fresh_val(Ty::Cmd),
                };
                method(Ty::Res, c, "run", vec![])
            }
            other => self.expr(other, 1),
        }
    }
    fn storable(&mut self) -> Ty {
        let mut ts = vec![Ty::Str, Ty::Str, Ty::AStr, Ty::AStr, Ty::AAStr];
        if self.use_cmd {
            ts.push(Ty::Cmd);
        }
        if self.use_run {
            ts.push(Ty::Res);
            ts.push(Ty::Res);
        }
        self.r.pick(&ts)
    }
    /// Prints everything observable about a variable.
    fn observe(&mut self, t: Ty, name: &str) -> St {
        let v = var(t, name);
        match t {
            Ty::Res => {
                let acc = |m: &str| ex(Ty::Str, EK::Builtin("to_string".into(), vec![method(Ty::Str, v.clone(), m, vec![])]));
                St::Shout(bin(Ty::Str, bin(Ty::Str, acc("stdout"), "add", acc("stderr")), "add", acc("exit_code")))
            }
            _ => St::Shout(v),
        }
    }
    /// Allocates and frees frame memory and pool slots.
    fn churn(&mut self) -> St {
        let a = self.fresh("t");
        let b = self.fresh("t");
        let e1 = self.fresh_val(Ty::Str);
        let e2 = self.fresh_val(Ty::Str);
        St::Block(vec![St::Make(a.clone(), e1), St::Make(b, e2), St::Assign(a, ex(Ty::Str, EK::Str("x".into())))])
    }

    /// The shapes the property is about, instantiated for a random storable type: a value is stored
    /// (variable, element, parameter, return value, captured variable), memory is reclaimed
    /// (end of a loop iteration, return from a call, a slot going back to the pool), then it is read.
    fn idiom(&mut self, out: &mut Vec<St>) {
        let t = self.storable();
        let v = self.fresh("v");
        if t == Ty::Res {
            // results only own strings when the streams are captured: run a configured command
            let c = self.fresh("k");
            let prog = self.fresh_val(Ty::Str);
            out.push(St::Make(c.clone(), ex(Ty::Cmd, EK::Builtin("command".into(), vec![prog]))));
            out.push(St::Expr(method(Ty::Num, var(Ty::Cmd, &c), "stdout_capture", vec![])));
            out.push(St::Expr(method(Ty::Num, var(Ty::Cmd, &c), "stderr_capture", vec![])));
            if self.r.chance(50) {
                let text = self.fresh_val(Ty::Str);
                out.push(St::Expr(method(Ty::Num, var(Ty::Cmd, &c), "stdin_text", vec![text])));
            }
            self.scopes.last_mut().unwrap().push((c.clone(), Ty::Cmd));
            self.run_var = Some(c);
        } else {
            self.run_var = None;
        }
        match self.r.below(9) {
            7 => {
                // an empty array stored as an element, then grown in place inside a loop
                out.push(St::Make(v.clone(), ex(Ty::AAStr, EK::Arr(vec![]))));
                self.scopes.last_mut().unwrap().push((v.clone(), Ty::AAStr));
                out.push(St::Expr(method(Ty::Num, var(Ty::AAStr, &v), "push", vec![ex(Ty::AStr, EK::Arr(vec![]))])));
                let counter = self.fresh("c");
                let e = self.fresh_val(Ty::Str);
                let inner = index(Ty::AStr, var(Ty::AAStr, &v), num(0.0));
                let mut body = vec![St::Expr(method(Ty::Num, inner, "push", vec![e]))];
                if self.r.chance(50) {
                    body.push(self.churn());
                }
                out.push(St::Loop { counter, n: self.r.range(2, 4) as u32, body });
                out.push(self.churn());
                out.push(St::Shout(var(Ty::AAStr, &v)));
            }
            8 => {
                // a function returns a string it popped off a local array
                let f = self.fresh("f");
                let l = self.fresh("v");
                let (e1, e2) = (self.fresh_val(Ty::Str), self.fresh_val(Ty::Str));
                let body = vec![
                    St::Make(l.clone(), ex(Ty::AStr, EK::Arr(vec![e1, e2]))),
                    St::Return(Some(method(Ty::Str, var(Ty::AStr, &l), "pop", vec![]))),
                ];
                out.push(St::Func { name: f.clone(), params: vec![], body });
                out.push(St::Make(v.clone(), ex(Ty::Str, EK::Call(f.clone(), vec![]))));
                self.scopes.last_mut().unwrap().push((v.clone(), Ty::Str));
                out.push(St::Shout(bin(Ty::Str, ex(Ty::Str, EK::Call(f, vec![])), "add", var(Ty::Str, &v))));
                out.push(self.churn());
                out.push(St::Shout(var(Ty::Str, &v)));
            }
            0 => {
                // assigned inside a loop body, read after the loop
                let first = self.fresh_val(t);
                out.push(St::Make(v.clone(), first));
                self.scopes.last_mut().unwrap().push((v.clone(), t));
                let counter = self.fresh("c");
                let e = self.fresh_val(t);
                let mut body = vec![St::Assign(v.clone(), e)];
                if self.r.chance(50) {
                    body.push(self.churn());
                }
                out.push(St::Loop { counter, n: self.r.range(1, 3) as u32, body });
                out.push(self.churn());
                out.push(self.observe(t, &v));
            }
            1 => {
                // returned from a function (fresh, or through a local)
                let f = self.fresh("f");
                let e = self.fresh_val(t);
                let body = if self.r.chance(50) {
                    let l = self.fresh("v");
                    vec![St::Make(l.clone(), e), self.churn(), St::Return(Some(var(t, &l)))]
                } else {
                    vec![St::Return(Some(e))]
                };
                out.push(St::Func { name: f.clone(), params: vec![], body });
                out.push(St::Make(v.clone(), ex(t, EK::Call(f.clone(), vec![]))));
                self.scopes.last_mut().unwrap().push((v.clone(), t));
                out.push(St::Expr(ex(t, EK::Call(f, vec![]))));
                out.push(self.churn());
                out.push(self.observe(t, &v));
            }
            2 => {
                // an array parameter grown inside a loop of the callee
                let t = if self.r.chance(70) { Ty::AStr } else { Ty::AAStr };
                let (f, p) = (self.fresh("f"), self.fresh("p"));
                let elem = if t == Ty::AStr { self.fresh_val(Ty::Str) } else { self.fresh_val(Ty::AStr) };
                let counter = self.fresh("c");
                let push = St::Expr(method(Ty::Num, var(t, &p), "push", vec![elem]));
                let body = vec![St::Loop { counter, n: self.r.range(2, 4) as u32, body: vec![push] }, St::Return(Some(var(t, &p)))];
                out.push(St::Func { name: f.clone(), params: vec![p], body });
                let arg = self.fresh_val(t);
                out.push(St::Make(v.clone(), ex(t, EK::Call(f, vec![arg]))));
                self.scopes.last_mut().unwrap().push((v.clone(), t));
                out.push(self.observe(t, &v));
            }
            3 => {
                // elements assigned and pushed inside a loop
                let init = self.fresh_val(Ty::AStr);
                out.push(St::Make(v.clone(), init));
                self.scopes.last_mut().unwrap().push((v.clone(), Ty::AStr));
                let counter = self.fresh("c");
                let (e1, e2) = (self.fresh_val(Ty::Str), self.fresh_val(Ty::Str));
                let body = vec![
                    St::AssignIndex(index(Ty::Str, var(Ty::AStr, &v), num(0.0)), e1),
                    St::Expr(method(Ty::Num, var(Ty::AStr, &v), "push", vec![e2])),
                ];
                out.push(St::Loop { counter, n: self.r.range(1, 3) as u32, body });
                out.push(self.churn());
                out.push(St::Shout(var(Ty::AStr, &v)));
            }
            4 => {
                // pushed to a captured array by a function called in a loop
                let init = self.fresh_val(Ty::AStr);
                out.push(St::Make(v.clone(), init));
                self.scopes.last_mut().unwrap().push((v.clone(), Ty::AStr));
                let (f, q) = (self.fresh("f"), self.fresh("p"));
                let pushed = bin(Ty::Str, var(Ty::Str, &q), "add", ex(Ty::Str, EK::Str("!".into())));
                let body = vec![
                    St::Expr(method(Ty::Num, var(Ty::AStr, &v), "push", vec![pushed])),
                    St::Return(Some(method(Ty::Num, var(Ty::AStr, &v), "len", vec![]))),
                ];
                out.push(St::Func { name: f.clone(), params: vec![q], body });
                let counter = self.fresh("c");
                let arg = self.fresh_val(Ty::Str);
                out.push(St::Loop { counter, n: self.r.range(1, 3) as u32, body: vec![St::Expr(ex(Ty::Num, EK::Call(f, vec![arg])))] });
                out.push(St::Shout(var(Ty::AStr, &v)));
            }
            5 => {
                // the callee reassigns a captured variable while the caller holds an evaluated operand
                let init = self.fresh_val(Ty::Str);
                out.push(St::Make(v.clone(), init));
                self.scopes.last_mut().unwrap().push((v.clone(), Ty::Str));
                let f = self.fresh("f");
                let e = self.fresh_val(Ty::Str);
                out.push(St::Func {
                    name: f.clone(),
                    params: vec![],
                    body: vec![St::Assign(v.clone(), e), St::Return(Some(ex(Ty::Str, EK::Str("!".into()))))],
                });
                let call = ex(Ty::Str, EK::Call(f, vec![]));
                let held = var(Ty::Str, &v);
                out.push(match self.r.below(3) {
                    0 => St::Shout(bin(Ty::Str, held, "add", call)),
                    1 => St::Shout(ex(Ty::AStr, EK::Arr(vec![held, call]))),
                    _ => St::Shout(method(Ty::Str, held, "replace", vec![ex(Ty::Str, EK::Str(",".into())), call])),
                });
                out.push(St::Shout(var(Ty::Str, &v)));
            }
            _ => {
                // stored in an outer variable from inside a function called from a loop, read later
                let first = self.fresh_val(t);
                out.push(St::Make(v.clone(), first));
                self.scopes.last_mut().unwrap().push((v.clone(), t));
                let f = self.fresh("f");
                let e = self.fresh_val(t);
                out.push(St::Func { name: f.clone(), params: vec![], body: vec![St::Assign(v.clone(), e), St::Return(Some(num(1.0)))] });
                let counter = self.fresh("c");
                out.push(St::Loop { counter, n: 2, body: vec![St::Expr(ex(Ty::Num, EK::Call(f, vec![]))), self.churn()] });
                out.push(self.observe(t, &v));
            }
        }
    }

    pub fn program(&mut self) -> Vec<St> {
        let mut out = vec![];
        // globals, then functions, then body: a function may read a captured variable only if every
        // call executes after that variable's `make`
        for _ in 0..self.r.range(2, 5) {
            let t = self.pick_ty();
            let v = self.fresh("g");
            let e = self.expr(t, 0);
            out.push(St::Make(v.clone(), e));
            self.scopes[0].push((v, t));
        }
        for _ in 0..self.r.range(1, 4) {
            let f = if self.r.chance(20) { self.rec_func() } else { self.func() };
            out.push(f);
        }
        let idioms = if self.r.chance(55) { self.r.range(1, 3) } else { 0 };
        let body = self.r.range(3, 10);
        let mut at: Vec<u64> = (0..idioms).map(|_| self.r.below(body + 1)).collect();
        at.sort_unstable();
        for k in 0..=body {
            while at.first() == Some(&k) {
                at.remove(0);
                self.idiom(&mut out);
            }
            if k < body {
                self.stmt(&mut out);
            }
        }
        // every global is observed at the end
        let names = self.all_vars();
        for (n, t) in names {
            if self.scopes[0].iter().any(|(g, _)| *g == n) {
                out.push(St::Shout(var(t, &n)));
            }
        }
        out
    }
}

// ---------------------------------------------------------------- shrinker

fn leaf(t: Ty) -> Ex {
    let s = || ex(Ty::Str, EK::Str("s".into()));
    match t {
        Ty::Num => num(1.0),
        Ty::Str => s(),
        Ty::Bool => ex(t, EK::Bool(true)),
        Ty::AStr => ex(t, EK::Arr(vec![s()])),
        Ty::AAStr => ex(t, EK::Arr(vec![ex(Ty::AStr, EK::Arr(vec![s()]))])),
        Ty::Cmd => ex(t, EK::Builtin("command".into(), vec![s()])),
        Ty::Res => method(t, ex(Ty::Cmd, EK::Builtin("command".into(), vec![s()])), "run", vec![]),
    }
}

fn children(e: &Ex) -> Vec<&Ex> {
    match &e.k {
        EK::Bin(l, _, r) => vec![l, r],
        EK::Not(x) => vec![x],
        EK::Method(recv, _, a) => std::iter::once(&**recv).chain(a.iter()).collect(),
        EK::Call(_, a) | EK::Builtin(_, a) | EK::Arr(a) => a.iter().collect(),
        EK::Index(a, i) => vec![a, i],
        _ => vec![],
    }
}
fn children_mut(e: &mut Ex) -> Vec<&mut Ex> {
    match &mut e.k {
        EK::Bin(l, _, r) => vec![l, r],
        EK::Not(x) => vec![x],
        EK::Method(recv, _, a) => std::iter::once(&mut **recv).chain(a.iter_mut()).collect(),
        EK::Call(_, a) | EK::Builtin(_, a) | EK::Arr(a) => a.iter_mut().collect(),
        EK::Index(a, i) => vec![a, i],
        _ => vec![],
    }
}

/// Candidate replacements for one expression node (smaller first).
fn ex_candidates(e: &Ex) -> Vec<Ex> {
    let mut out = vec![];
    let is_leaf = matches!(&e.k, EK::Num(_) | EK::Bool(_) | EK::Var(_)) || matches!(&e.k, EK::Str(s) if s.len() <= 1);
    if !is_leaf {
        out.push(leaf(e.ty));
    }
    for c in children(e) {
        if c.ty == e.ty {
            out.push(c.clone());
        }
    }
    if let EK::Str(s) = &e.k {
        for l in [9usize, 17, 129, 257] {
            if s.len() > l {
                let mut t = String::new();
                for ch in s.chars() {
                    if t.len() + ch.len_utf8() > l {
                        break;
                    }
                    t.push(ch);
                }
                out.push(ex(Ty::Str, EK::Str(t)));
                break;
            }
        }
    }
    if let EK::Arr(items) = &e.k
        && items.len() > 1
    {
        out.push(ex(e.ty, EK::Arr(items[..1].to_vec())));
        out.push(ex(e.ty, EK::Arr(items[1..].to_vec())));
    }
    if let EK::Interp(segs) = &e.k
        && segs.len() > 1
    {
        out.push(ex(Ty::Str, EK::Interp(segs[..segs.len() - 1].to_vec())));
        out.push(ex(Ty::Str, EK::Interp(segs[1..].to_vec())));
    }
    out
}

fn visit_ex_mut(e: &mut Ex, counter: &mut usize, target: usize, repl: &mut Option<Ex>) {
    if repl.is_none() {
        return;
    }
    if *counter == target {
        *e = repl.take().unwrap();
        *counter += 1;
        return;
    }
    *counter += 1;
    for c in children_mut(e) {
        visit_ex_mut(c, counter, target, repl);
    }
}
fn count_ex(e: &Ex, acc: &mut Vec<Ex>) {
    acc.push(e.clone());
    for c in children(e) {
        count_ex(c, acc);
    }
}

fn st_exprs(s: &St) -> Vec<&Ex> {
    match s {
        St::Make(_, e) | St::Assign(_, e) | St::Expr(e) | St::Shout(e) | St::Return(Some(e)) => vec![e],
        St::AssignIndex(t, e) => vec![t, e],
        St::If(c, _, _) | St::LoopC { cond: c, .. } => vec![c],
        _ => vec![],
    }
}
fn st_exprs_mut(s: &mut St) -> Vec<&mut Ex> {
    match s {
        St::Make(_, e) | St::Assign(_, e) | St::Expr(e) | St::Shout(e) | St::Return(Some(e)) => vec![e],
        St::AssignIndex(t, e) => vec![t, e],
        St::If(c, _, _) | St::LoopC { cond: c, .. } => vec![c],
        _ => vec![],
    }
}
fn st_blocks(s: &St) -> Vec<&Vec<St>> {
    match s {
        St::If(_, t, e) => {
            let mut v = vec![t];
            if let Some(e) = e {
                v.push(e);
            }
            v
        }
        St::Loop { body, .. } | St::LoopC { body, .. } | St::Block(body) | St::Func { body, .. } => vec![body],
        _ => vec![],
    }
}
fn st_blocks_mut(s: &mut St) -> Vec<&mut Vec<St>> {
    match s {
        St::If(_, t, e) => {
            let mut v = vec![t];
            if let Some(e) = e {
                v.push(e);
            }
            v
        }
        St::Loop { body, .. } | St::LoopC { body, .. } | St::Block(body) | St::Func { body, .. } => vec![body],
        _ => vec![],
    }
}

/// Programs one structural step smaller than `p`, statement-level edits first. Bounded.
pub fn shrink_candidates(p: &[St], limit: usize) -> Vec<Vec<St>> {
    let mut out = vec![];
    stmt_edits(p, &mut |np| out.push(np));
    let mut all = vec![];
    collect_all_ex(p, &mut all);
    for (i, e) in all.iter().enumerate() {
        if out.len() >= limit {
            break;
        }
        for cand in ex_candidates(e) {
            let mut np = p.to_vec();
            let mut counter = 0;
            let mut repl = Some(cand);
            replace_ex_in_block(&mut np, &mut counter, i, &mut repl);
            out.push(np);
        }
    }
    let base = render(p).len();
    out.retain(|c| render(c).len() < base);
    out.truncate(limit);
    out
}
fn collect_all_ex(b: &[St], acc: &mut Vec<Ex>) {
    for s in b {
        for e in st_exprs(s) {
            count_ex(e, acc);
        }
        for bl in st_blocks(s) {
            collect_all_ex(bl, acc);
        }
    }
}
fn replace_ex_in_block(b: &mut [St], counter: &mut usize, target: usize, repl: &mut Option<Ex>) {
    for s in b.iter_mut() {
        for e in st_exprs_mut(s) {
            visit_ex_mut(e, counter, target, repl);
        }
        for bl in st_blocks_mut(s) {
            replace_ex_in_block(bl, counter, target, repl);
        }
    }
}

/// Statement-level edits applied at every block of the tree; `emit` receives the whole new program.
fn stmt_edits(root: &[St], emit: &mut dyn FnMut(Vec<St>)) {
    fn rec(root: &[St], path: &mut Vec<(usize, usize)>, cur: &[St], emit: &mut dyn FnMut(Vec<St>)) {
        // delete chunks (halves first), then single statements, then unwrap compound statements
        let n = cur.len();
        let mut spans: Vec<(usize, usize)> = vec![];
        if n >= 4 {
            spans.push((0, n / 2));
            spans.push((n / 2, n));
        }
        for i in 0..n {
            spans.push((i, i + 1));
        }
        for (a, b) in spans {
            let mut nb = cur.to_vec();
            nb.drain(a..b);
            emit(rebuild(root, path, nb));
        }
        for i in 0..n {
            let repl: Vec<Vec<St>> = match &cur[i] {
                St::If(_, t, e) => {
                    let mut v = vec![t.clone()];
                    if let Some(e) = e {
                        v.push(e.clone());
                    }
                    v
                }
                St::Loop { counter, n, body } => {
                    let mut v = vec![];
                    if *n > 1 {
                        v.push(vec![St::Loop { counter: counter.clone(), n: 1, body: body.clone() }]);
                    }
                    let mut b = vec![St::Make(counter.clone(), num(1.0))];
                    b.extend(body.iter().filter(|s| !matches!(s, St::Break | St::Continue)).cloned());
                    v.push(b);
                    v
                }
                St::Block(b) => vec![b.clone()],
                _ => vec![],
            };
            for r in repl {
                let mut nb = cur.to_vec();
                nb.splice(i..=i, r);
                emit(rebuild(root, path, nb));
            }
        }
        for i in 0..n {
            for (k, bl) in st_blocks(&cur[i]).into_iter().enumerate() {
                path.push((i, k));
                rec(root, path, bl, emit);
                path.pop();
            }
        }
    }
    fn rebuild(root: &[St], path: &[(usize, usize)], nb: Vec<St>) -> Vec<St> {
        if path.is_empty() {
            return nb;
        }
        let mut r = root.to_vec();
        {
            let (i, k) = path[0];
            let mut blocks = st_blocks_mut(&mut r[i]);
            let inner = std::mem::take(blocks[k]);
            *blocks[k] = rebuild(&inner, &path[1..], nb);
        }
        r
    }
    rec(root, &mut vec![], root, emit);
}

pub fn count_statements(b: &[St]) -> usize {
    b.iter().map(|s| 1 + st_blocks(s).into_iter().map(|x| count_statements(x)).sum::<usize>()).sum()
}
