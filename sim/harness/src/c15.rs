//! C15: the child gets exactly the configured argv/env/cwd/stdin; refused commands spawn nothing.
//! Generated builder scripts run on the simulated host; a reference model of the builder and of
//! the documented limits predicts every spawn request and every refusal.
use std::collections::BTreeMap;
use std::sync::{Arc, Mutex};

use naijascript::process::{HostPolicy, ProcessCaps};
use naijascript::sys::verif_shim::world::{self, ChildOp};
use serde_json::{Value, json};

use crate::common::*;
use crate::hostsim::{self, SchedMode, WorldObs};
use crate::pipeline;
use crate::realos;
use crate::rng::{Rng, fnv};

pub struct C15;

pub fn strlit(s: &str) -> String {
    let mut o = String::from("\"");
    for ch in s.chars() {
        match ch {
            '\\' => o.push_str("\\\\"),
            '"' => o.push_str("\\\""),
            '\n' => o.push_str("\\n"),
            '\t' => o.push_str("\\t"),
            c => o.push(c),
        }
    }
    o.push('"');
    o
}

// No braces: `{`/`}` in literals go through template parsing, whose escaping rules depend on
// whether the literal also contains a backslash escape (a C01 matter, not this property's).
const PIECES: [&str; 24] = [
    "a", "b", "Z", "0", " ", "  ", "\"", "'", "$HOME", "*", "?", ";", "|", "&", "\n", "\\", "é", "日本",
    "=", "\0", "\t", "-x", "`id`", "~",
];

fn word(r: &mut Rng, maxlen: u64) -> String {
    let n = r.below(maxlen + 1);
    let mut s = String::new();
    for _ in 0..n {
        s.push_str(r.pick(&PIECES));
    }
    s
}

/// A script value and how it reads once converted with `to_string`.
/// A long text written compactly in case files: `{"rep": unit, "n": times, "tail": text}`.
fn big_text(v: &Value) -> Option<String> {
    let unit = v.get("rep")?.as_str()?;
    let mut s = unit.repeat(v["n"].as_u64().unwrap_or(0) as usize);
    s.push_str(v["tail"].as_str().unwrap_or(""));
    Some(s)
}

/// Long texts in messages: head and tail only.
fn abbreviate(s: &str) -> String {
    let n = s.chars().count();
    if n <= 80 {
        return s.to_string();
    }
    let head: String = s.chars().take(30).collect();
    let tail: String = s.chars().skip(n - 30).collect();
    format!("{head}...({n} chars)...{tail}")
}

fn val_shown(v: &Value) -> String {
    match v {
        Value::String(s) => s.clone(),
        Value::Object(_) => big_text(v).unwrap_or_default(),
        Value::Bool(b) => format!("{b}"),
        Value::Number(n) => format!("{}", n.as_f64().unwrap()),
        Value::Array(a) => {
            let items: Vec<String> = a.iter().map(|x| format!("\"{}\"", x.as_str().unwrap())).collect();
            format!("[{}]", items.join(", "))
        }
        _ => "null".into(),
    }
}

fn num_lit(n: f64) -> String {
    if n < 0.0 { format!("(minus {})", -n) } else { format!("{n}") }
}

/// Source text of a value. `computed` builds strings at run time (frame-arena temporaries).
fn val_lit(v: &Value, computed: bool) -> String {
    match v {
        Value::String(s) => {
            if computed && s.chars().count() >= 2 {
                let mid = s.char_indices().nth(s.chars().count() / 2).unwrap().0;
                format!("({} add {})", strlit(&s[..mid]), strlit(&s[mid..]))
            } else {
                strlit(s)
            }
        }
        Value::Object(_) => strlit(&big_text(v).unwrap_or_default()),
        Value::Bool(b) => format!("{b}"),
        Value::Number(n) => num_lit(n.as_f64().unwrap()),
        Value::Array(a) => {
            let items: Vec<String> = a.iter().map(|x| strlit(x.as_str().unwrap())).collect();
            format!("[{}]", items.join(", "))
        }
        _ => "null".into(),
    }
}

#[derive(Clone, Debug, Default, PartialEq)]
struct Cmd {
    program: String,
    args: Vec<String>,
    env: Vec<(String, String)>,
    cwd: Option<String>,
    stdin: (u8, String), // 0 inherit 1 null 2 text
    out: u8,
    err: u8,
    timeout: Option<u32>,
}

fn apply(c: &mut Cmd, op: &Value) -> Result<(), &'static str> {
    let k = op["k"].as_str().unwrap();
    match k {
        "arg" => c.args.push(val_shown(&op["v"])),
        "env" => {
            let key = op["key"].as_str().unwrap().to_string();
            let v = val_shown(&op["v"]);
            if let Some(p) = c.env.iter_mut().rev().find(|p| p.0 == key) {
                p.1 = v;
            } else {
                c.env.push((key, v));
            }
        }
        "cwd" => c.cwd = Some(op["v"].as_str().unwrap().to_string()),
        "stdin_text" => c.stdin = (2, val_shown(&op["v"])),
        "stdin_null" => c.stdin = (1, String::new()),
        "stdin_inherit" => c.stdin = (0, String::new()),
        "stdout" => c.out = op["v"].as_u64().unwrap() as u8,
        "stderr" => c.err = op["v"].as_u64().unwrap() as u8,
        "timeout" => {
            let t = op["v"].as_f64().unwrap();
            if !t.is_finite() || t <= 0.0 || t.fract() != 0.0 {
                return Err("timeout-arg");
            }
            c.timeout = Some(if t >= 4_294_967_296.0 { u32::MAX } else { t as u32 });
        }
        _ => {}
    }
    Ok(())
}

fn op_src(recv: &str, op: &Value, computed: bool) -> String {
    let pol = |p: u64| ["inherit", "null", "capture"][p as usize];
    match op["k"].as_str().unwrap() {
        "arg" => format!("{recv}.arg({})", val_lit(&op["v"], computed)),
        "env" => format!(
            "{recv}.env({}, {})",
            val_lit(&json!(op["key"].as_str().unwrap()), computed),
            val_lit(&op["v"], computed)
        ),
        "cwd" => format!("{recv}.cwd({})", val_lit(&op["v"], computed)),
        "stdin_text" => format!("{recv}.stdin_text({})", val_lit(&op["v"], computed)),
        "stdin_null" => format!("{recv}.stdin_null()"),
        "stdin_inherit" => format!("{recv}.stdin_inherit()"),
        "stdout" => format!("{recv}.stdout_{}()", pol(op["v"].as_u64().unwrap())),
        "stderr" => format!("{recv}.stderr_{}()", pol(op["v"].as_u64().unwrap())),
        "timeout" => format!("{recv}.timeout_ms({})", num_lit(op["v"].as_f64().unwrap())),
        _ => String::new(),
    }
}

pub fn caps_of(j: &Value) -> ProcessCaps {
    let mut c = ProcessCaps::defaults();
    let g = |k: &str, d: u32| j[k].as_u64().map_or(d, |v| v as u32);
    c.max_program_bytes = g("max_program_bytes", c.max_program_bytes);
    c.max_cwd_bytes = g("max_cwd_bytes", c.max_cwd_bytes);
    c.max_args = g("max_args", c.max_args);
    c.max_arg_bytes = g("max_arg_bytes", c.max_arg_bytes);
    c.max_total_arg_bytes = g("max_total_arg_bytes", c.max_total_arg_bytes);
    c.max_env_pairs = g("max_env_pairs", c.max_env_pairs);
    c.max_env_key_bytes = g("max_env_key_bytes", c.max_env_key_bytes);
    c.max_env_value_bytes = g("max_env_value_bytes", c.max_env_value_bytes);
    c.max_total_env_bytes = g("max_total_env_bytes", c.max_total_env_bytes);
    c.max_stdin_bytes = g("max_stdin_bytes", c.max_stdin_bytes);
    c.max_timeout_ms = g("max_timeout_ms", c.max_timeout_ms);
    c.default_timeout_ms = g("default_timeout_ms", c.default_timeout_ms);
    c.wait_poll_ms = 10;
    c
}

/// The documented limits (docs + `ProcessCaps`): is this command refused?
fn refused(c: &Cmd, caps: &ProcessCaps) -> bool {
    let bad = |s: &str, max: u32, allow_empty: bool, no_eq: bool| {
        (!allow_empty && s.is_empty())
            || s.contains('\0')
            || (no_eq && s.contains('='))
            || s.len() as u64 > u64::from(max)
    };
    let mut r = bad(&c.program, caps.max_program_bytes, false, false)
        || c.args.len() as u64 > u64::from(caps.max_args)
        || c.env.len() as u64 > u64::from(caps.max_env_pairs);
    r |= c.args.iter().any(|a| bad(a, caps.max_arg_bytes, true, false))
        || c.args.iter().map(|a| a.len() as u64).sum::<u64>() > u64::from(caps.max_total_arg_bytes);
    r |= c.cwd.as_ref().is_some_and(|d| bad(d, caps.max_cwd_bytes, false, false));
    r |= c.env.iter().any(|(k, v)| {
        bad(k, caps.max_env_key_bytes, false, true) || bad(v, caps.max_env_value_bytes, true, false)
    }) || c.env.iter().map(|(k, v)| (k.len() + v.len()) as u64).sum::<u64>()
        > u64::from(caps.max_total_env_bytes);
    if c.stdin.0 == 2 {
        r |= bad(&c.stdin.1, caps.max_stdin_bytes, true, false);
    }
    let t = c.timeout.unwrap_or(caps.default_timeout_ms);
    r |= t == 0 || t > caps.max_timeout_ms;
    r
}

#[derive(Debug, Default)]
struct Expectation {
    /// spawn requests in order, with the stdin text the child must receive
    spawns: Vec<Cmd>,
    /// markers printed before the script ended
    printed: Vec<String>,
    /// None = runs to the end; Some(kinds) = ends with one of these runtime errors
    ending: Option<Vec<&'static str>>,
    /// the n-th spawn attempt that the fault plan makes fail
    spawn_fault_hit: bool,
    refusals: BTreeMap<&'static str, u64>,
}

/// Renders the script and computes what must happen, step by step.
fn build(case: &Value) -> (String, Expectation) {
    let caps = caps_of(&case["caps"]);
    let allow = case["allow"].as_bool().unwrap();
    let spawn_errors: Vec<u32> = case["spawn_errors"]
        .as_array()
        .map(|a| a.iter().map(|e| e[0].as_u64().unwrap() as u32).collect())
        .unwrap_or_default();
    let steps = case["steps"].as_array().unwrap();
    let mut src = String::new();
    // helper functions first (functions before use keeps clear of forward-capture issues)
    let mut nfun = 0;
    for st in steps {
        if st["s"] == "via_func" || st["s"] == "touch_func" {
            let body = op_src("p", &st["op"], st["computed"].as_bool().unwrap_or(false));
            if st["s"] == "via_func" {
                src += &format!("do f{nfun}(p) start\n    {body}\n    return p\nend\n");
            } else {
                src += &format!("do f{nfun}(p) start\n    {body}\n    return 0\nend\n");
            }
            nfun += 1;
        }
    }
    let slots = case["slots"].as_u64().unwrap_or(0) as usize; // vars < slots live in array `cs`
    let recv = |v: usize| if v < slots { format!("cs[{v}]") } else { format!("c{v}") };
    let mut model: BTreeMap<usize, Cmd> = BTreeMap::new();
    let mut exp = Expectation::default();
    let mut attempts = 0u32;
    let mut fi = 0;
    let mut declared_array = false;
    let mut nrun = 0;
    for st in steps {
        if exp.ending.is_some() {
            // the script text still contains the rest; the model stops here
        }
        let var = st["var"].as_u64().unwrap_or(0) as usize;
        let computed = st["computed"].as_bool().unwrap_or(false);
        let live = exp.ending.is_none();
        match st["s"].as_str().unwrap() {
            "new" => {
                let program = st["program"].as_str().unwrap();
                if var < slots {
                    if !declared_array {
                        // all slots are created at once, with placeholder commands
                        let items: Vec<String> = (0..slots).map(|_| "command(\"placeholder\")".to_string()).collect();
                        src += &format!("make cs get [{}]\n", items.join(", "));
                        declared_array = true;
                        if live {
                            for k in 0..slots {
                                model.insert(k, Cmd { program: "placeholder".into(), ..Cmd::default() });
                            }
                        }
                    }
                    src += &format!("cs[{var}] get command({})\n", val_lit(&json!(program), computed));
                } else {
                    src += &format!("make c{var} get command({})\n", val_lit(&json!(program), computed));
                }
                if live {
                    model.insert(var, Cmd { program: program.to_string(), ..Cmd::default() });
                }
            }
            "op" => {
                src += &op_src(&recv(var), &st["op"], computed);
                src.push('\n');
                if live
                    && let Some(c) = model.get_mut(&var)
                    && let Err(why) = apply(c, &st["op"])
                {
                    exp.ending = Some(vec!["Invalid process configuration"]);
                    *exp.refusals.entry(why).or_default() += 1;
                }
            }
            "loop_op" => {
                let n = st["n"].as_u64().unwrap();
                src += &format!(
                    "make i{fi}x get 0\njasi (i{fi}x small pass {n}) start\n    {}\n    i{fi}x get i{fi}x add 1\nend\n",
                    op_src(&recv(var), &st["op"], computed)
                );
                fi += 1;
                if live {
                    for _ in 0..n {
                        if let Some(c) = model.get_mut(&var)
                            && let Err(why) = apply(c, &st["op"])
                        {
                            exp.ending = Some(vec!["Invalid process configuration"]);
                            *exp.refusals.entry(why).or_default() += 1;
                            break;
                        }
                    }
                }
            }
            "copy" => {
                // value semantics: the copy is independent of its source from here on
                let from = st["from"].as_u64().unwrap() as usize;
                if var < slots {
                    src += &format!("cs[{var}] get {}\n", recv(from));
                } else {
                    src += &format!("make c{var} get {}\n", recv(from));
                }
                if live && let Some(c) = model.get(&from).cloned() {
                    model.insert(var, c);
                }
            }
            "via_func" => {
                // the function mutates its own copy and returns it
                let r = recv(var);
                src += &format!("{r} get f{nfunx}({r})\n", nfunx = func_index(steps, st));
                if live
                    && let Some(c) = model.get_mut(&var)
                    && let Err(why) = apply(c, &st["op"])
                {
                    exp.ending = Some(vec!["Invalid process configuration"]);
                    *exp.refusals.entry(why).or_default() += 1;
                }
            }
            "touch_func" => {
                // mutates a copy only: the caller's command must not change
                let r = recv(var);
                src += &format!("make t{fi} get f{nfunx}({r})\n", nfunx = func_index(steps, st));
                fi += 1;
                if live {
                    let mut scratch = model.get(&var).cloned().unwrap_or_default();
                    if let Err(why) = apply(&mut scratch, &st["op"]) {
                        exp.ending = Some(vec!["Invalid process configuration"]);
                        *exp.refusals.entry(why).or_default() += 1;
                    }
                }
            }
            "reassign" | "block_reassign" => {
                // the variable gets a brand-new builder: nothing configured so far may survive.
                // block_reassign does it inside a nested block (another basic block for the analysis)
                let program = st["program"].as_str().unwrap();
                let lit = val_lit(&json!(program), computed);
                if st["s"] == "reassign" {
                    src += &format!("{} get command({lit})\n", recv(var));
                } else {
                    src += &format!("if to say (1 na 1) start\n    {} get command({lit})\nend\n", recv(var));
                }
                if live && model.contains_key(&var) {
                    model.insert(var, Cmd { program: program.to_string(), ..Cmd::default() });
                }
            }
            "interp_func" => {
                // a string variable that a helper reads only through interpolation; it is re-assigned
                // before the helper is called, so the child must see the new text
                let (old, new) = (st["old"].as_str().unwrap(), st["new"].as_str().unwrap());
                let key = st["key"].as_str();
                let use_ = match key {
                    Some(k) => format!("{}.env({}, \"{{t{fi}}}\")", recv(var), strlit(k)),
                    None => format!("{}.arg(\"{{t{fi}}}\")", recv(var)),
                };
                src += &format!(
                    "make t{fi} get {}\ndo w{fi}() start\n    {use_}\n    return 0\nend\nt{fi} get {}\nmake x{fi} get w{fi}()\n",
                    strlit(old),
                    val_lit(&json!(new), computed)
                );
                fi += 1;
                let op = match key {
                    Some(k) => json!({"k": "env", "key": k, "v": new}),
                    None => json!({"k": "arg", "v": new}),
                };
                if live
                    && let Some(c) = model.get_mut(&var)
                    && let Err(why) = apply(c, &op)
                {
                    exp.ending = Some(vec!["Invalid process configuration"]);
                    *exp.refusals.entry(why).or_default() += 1;
                }
            }
            "scoped_store" => {
                // a local of a nested scope is re-assigned, a branch follows, and the use is the last thing
                // the scope does: the store is live only through the scope's final block
                let w: Vec<&str> = st["words"].as_array().unwrap().iter().map(|x| x.as_str().unwrap()).collect();
                let r_ = recv(var);
                src += &format!(
                    "if to say (1 na 1) start\n    make m{fi} get {}\n    shout(m{fi}.len())\n    m{fi} get {}\n    if to say (1 na 1) start\n        shout(\"branch\")\n    end\n    {r_}.arg(m{fi})\nend\n",
                    strlit(w[0]), strlit(w[1])
                );
                fi += 1;
                if live {
                    exp.printed.push(w[0].chars().count().to_string());
                    exp.printed.push("branch".into());
                    if let Some(c) = model.get_mut(&var)
                        && let Err(why) = apply(c, &json!({"k": "arg", "v": w[1]}))
                    {
                        exp.ending = Some(vec!["Invalid process configuration"]);
                        *exp.refusals.entry(why).or_default() += 1;
                    }
                }
            }
            "next_store" => {
                // a string variable is stored right before `next` and consumed at the top of the following
                // iteration: the store is only live along the loop's back edge
                let w: Vec<&str> = st["words"].as_array().unwrap().iter().map(|x| x.as_str().unwrap()).collect();
                let r_ = recv(var);
                src += &format!(
                    "make v{fi} get {}\nmake n{fi} get 0\njasi (n{fi} small pass 3) start\n    n{fi} get n{fi} add 1\n    {r_}.arg(v{fi})\n    if to say (n{fi} na 1) start\n        v{fi} get {}\n        next\n    end\n    v{fi} get {}\nend\n",
                    strlit(w[0]), strlit(w[1]), strlit(w[2])
                );
                fi += 1;
                if live {
                    for x in &w {
                        if let Some(c) = model.get_mut(&var)
                            && let Err(why) = apply(c, &json!({"k": "arg", "v": x}))
                        {
                            exp.ending = Some(vec!["Invalid process configuration"]);
                            *exp.refusals.entry(why).or_default() += 1;
                            break;
                        }
                    }
                }
            }
            "nested_reset" => {
                // the builder is used at the top of every outer round and replaced inside an inner loop:
                // whether that assignment is live is only known after the analysis has gone round both loops
                let program = st["program"].as_str().unwrap();
                let r_ = recv(var);
                src += &format!(
                    "make a{fi} get 0\njasi (a{fi} small pass 2) start\n    a{fi} get a{fi} add 1\n    {r_}.arg(\"round\")\n    make b{fi} get 0\n    jasi (b{fi} small pass 2) start\n        b{fi} get b{fi} add 1\n        {r_} get command({})\n    end\nend\n",
                    val_lit(&json!(program), computed)
                );
                fi += 1;
                if live && model.contains_key(&var) {
                    model.insert(var, Cmd { program: program.to_string(), ..Cmd::default() });
                }
            }
            "env_pops" => {
                // key and value come out of one array: the key is the first operand, so it is popped first
                let (k, v) = (st["key"].as_str().unwrap(), st["v"].as_str().unwrap());
                src += &format!("make kv{fi} get [{}, {}]\n{}.env(kv{fi}.pop(), kv{fi}.pop())\n", strlit(v), strlit(k), recv(var));
                fi += 1;
                if live
                    && let Some(c) = model.get_mut(&var)
                    && let Err(why) = apply(c, &json!({"k": "env", "key": k, "v": v}))
                {
                    exp.ending = Some(vec!["Invalid process configuration"]);
                    *exp.refusals.entry(why).or_default() += 1;
                }
            }
            "reset_func" => {
                // a helper whose only effect is to replace the captured builder; nobody reads its result
                let program = st["program"].as_str().unwrap();
                src += &format!(
                    "do z{fi}() start\n    {} get command({})\n    return 0\nend\nmake q{fi} get z{fi}()\n",
                    recv(var),
                    val_lit(&json!(program), computed)
                );
                fi += 1;
                if live && model.contains_key(&var) {
                    model.insert(var, Cmd { program: program.to_string(), ..Cmd::default() });
                }
            }
            "maybe_reset" => {
                // a helper that would replace the captured builder, but its condition is false
                src += &format!(
                    "do m{fi}(flag) start\n    if to say (flag) start\n        {} get command(\"never\")\n    end\n    return 0\nend\nmake q{fi} get m{fi}(false)\n",
                    recv(var)
                );
                fi += 1;
            }
            "self_assign" => {
                // `c get k()` where k reads the captured c: the old value is read before it is replaced
                src += &format!("do k{fi}() start\n    return {r}\nend\n{r} get k{fi}()\n", r = recv(var));
                fi += 1;
            }
            "cap_func" | "shadow_func" => {
                // a helper that works on the builder it captures from the enclosing scope; nobody reads
                // what it returns. shadow_func calls it from a function that has a local of the same name
                let body = op_src(&recv(var), &st["op"], computed);
                src += &format!("do g{fi}() start\n    {body}\n    return 7\nend\n");
                if st["s"] == "shadow_func" && var >= slots {
                    src += &format!(
                        "do h{fi}() start\n    make c{var} get command(\"shadow\")\n    c{var}.arg(\"local only\")\n    make u get g{fi}()\n    return 0\nend\nmake w{fi} get h{fi}()\n"
                    );
                } else {
                    src += &format!("make u{fi} get g{fi}()\n");
                }
                fi += 1;
                if live
                    && let Some(c) = model.get_mut(&var)
                    && let Err(why) = apply(c, &st["op"])
                {
                    exp.ending = Some(vec!["Invalid process configuration"]);
                    *exp.refusals.entry(why).or_default() += 1;
                }
            }
            "run" => {
                src += &format!("make r{nrun} get {}.run()\nshout(\"ran {nrun}\")\n", recv(var));
                if live && let Some(c) = model.get(&var) {
                    let invalid = refused(c, &caps);
                    if !allow {
                        exp.ending = Some(vec!["Process execution denied"]);
                        *exp.refusals.entry("denied").or_default() += 1;
                    } else if invalid {
                        exp.ending = Some(vec!["Invalid process configuration"]);
                        *exp.refusals.entry("invalid").or_default() += 1;
                    } else if spawn_errors.contains(&attempts) {
                        attempts += 1;
                        exp.ending = Some(vec!["Process spawn failed"]);
                        exp.spawn_fault_hit = true;
                    } else {
                        attempts += 1;
                        exp.spawns.push(c.clone());
                        exp.printed.push(format!("ran {nrun}"));
                    }
                }
                nrun += 1;
            }
            _ => {}
        }
    }
    (src, exp)
}

fn func_index(steps: &[Value], me: &Value) -> usize {
    let mut k = 0;
    for st in steps {
        if std::ptr::eq(st, me) {
            return k;
        }
        if st["s"] == "via_func" || st["s"] == "touch_func" {
            k += 1;
        }
    }
    k
}

fn small_caps(r: &mut Rng) -> Value {
    if !r.chance(80) {
        return json!({});
    }
    json!({
        "max_program_bytes": r.pick(&[1u32, 3, 8, 4096]), "max_cwd_bytes": r.pick(&[1u32, 4, 9, 4096]),
        "max_args": r.pick(&[0u32, 1, 2, 3, 256]), "max_arg_bytes": r.pick(&[0u32, 1, 4, 7, 65536]),
        "max_total_arg_bytes": r.pick(&[0u32, 5, 9, 262_144]), "max_env_pairs": r.pick(&[0u32, 1, 2, 128]),
        "max_env_key_bytes": r.pick(&[1u32, 2, 5, 256]), "max_env_value_bytes": r.pick(&[0u32, 3, 6, 16384]),
        "max_total_env_bytes": r.pick(&[2u32, 7, 12, 131_072]), "max_stdin_bytes": r.pick(&[0u32, 2, 5, 1_048_576]),
        "max_timeout_ms": r.pick(&[1u32, 50, 3_600_000]), "default_timeout_ms": r.pick(&[1u32, 40, 900_000]),
    })
}

fn gen_val(r: &mut Rng) -> Value {
    match r.below(12) {
        0 => json!(r.pick(&[0.0f64, 3.0, 2.5, 100.0, -4.0, 1e21])),
        1 => json!(r.chance(50)),
        2 => json!([word(r, 2), word(r, 2)]),
        _ => json!(word(r, 4)),
    }
}

/// 64 KiB and more, lengths on both sides of the multiples of 64 KiB and up to the 1 MiB host limit.
fn gen_big_text(r: &mut Rng, max: u64) -> Value {
    let unit = r.pick(&["a", "xy", "é", "0123456", "line\n"]);
    let total = r.pick(&[65_535u64, 65_536, 65_537, 70_001, 81_924, 131_071, 131_072, 131_073, 200_001, 1_048_570]).min(max);
    let tail = r.pick(&["", "!", "end", "Ω"]);
    json!({"rep": unit, "n": (total.saturating_sub(tail.len() as u64)) / unit.len() as u64, "tail": tail})
}

fn gen_op(r: &mut Rng) -> Value {
    match r.below(13) {
        0..=3 => json!({"k": "arg", "v": gen_val(r)}),
        4..=6 => {
            // few keys so that repeats (last write wins) are common; case variants are different keys
            let key = if r.chance(70) { r.pick(&["K", "PATH", "A", "k", "Path", "a", "K"]).to_string() } else { word(r, 2) };
            json!({"k": "env", "key": key, "v": gen_val(r)})
        }
        7 => json!({"k": "cwd", "v": word(r, 3)}),
        8 => json!({"k": "stdin_text", "v": gen_val(r)}),
        9 => {
            if r.chance(50) {
                json!({"k": "stdin_null"})
            } else {
                json!({"k": "stdin_inherit"})
            }
        }
        10 => json!({"k": "stdout", "v": r.below(3)}),
        11 => json!({"k": "stderr", "v": r.below(3)}),
        _ => json!({"k": "timeout", "v": r.pick(&[1.0f64, 30.0, 50.0, 51.0, 0.0, -1.0, 2.5, 5e9, 3_600_000.0, 3_600_001.0])}),
    }
}

impl Engine for C15 {
    fn id(&self) -> &'static str {
        "C15"
    }
    fn tag(&self) -> u64 {
        0xC15
    }
    fn profiles(&self, _tier: Tier) -> Vec<&'static str> {
        vec!["simdbg", "simrel"]
    }
    fn runs(&self, tier: Tier, profile: &str) -> u64 {
        match (tier, profile) {
            (Tier::Quick, "simdbg") => 10_000,
            (Tier::Quick, _) => 14_000,
            (Tier::Thorough, "simdbg") => 400_000,
            (Tier::Thorough, _) => 800_000,
        }
    }

    fn generate(&self, seed: u64, i: u64, _tier: Tier) -> Value {
        if i % 1500 == 749 {
            // known finding K2: a bare program name looked up through an overridden PATH (real OS)
            return json!({"kind": "real", "shape": "path-sh", "args": ["a b", "*"]});
        }
        if i % 50 == 49 {
            return gen_real(&mut Rng::stream(seed, self.tag() ^ 0x4ea1, i));
        }
        // two schedules per scenario
        let mut r = Rng::stream(seed, self.tag(), i / 2);
        let nvars = r.usize(1, 3);
        let slots = if r.chance(30) { r.usize(1, nvars) } else { 0 };
        let mut steps = vec![];
        let program = |r: &mut Rng| {
            let w = word(r, 3);
            if w.is_empty() && r.chance(70) { "p".to_string() } else { w }
        };
        let mut made: Vec<usize> = vec![];
        // slot variables must be created first (the array is declared with all of them)
        for v in 0..nvars {
            if v < slots || v == 0 {
                steps.push(json!({"s": "new", "var": v, "program": program(&mut r), "computed": r.chance(20)}));
                made.push(v);
            }
        }
        let nsteps = r.usize(0, 10);
        for _ in 0..nsteps {
            let var = r.pick(&made);
            let computed = r.chance(35);
            match r.below(20) {
                0..=9 => steps.push(json!({"s": "op", "var": var, "op": gen_op(&mut r), "computed": computed})),
                10 | 11 => steps.push(json!({"s": "loop_op", "var": var, "op": gen_op(&mut r), "n": r.range(1, 3), "computed": computed})),
                12 | 13 => steps.push(json!({"s": "via_func", "var": var, "op": gen_op(&mut r), "computed": computed})),
                14 => steps.push(json!({"s": r.pick(&["touch_func", "cap_func", "shadow_func"]), "var": var, "op": gen_op(&mut r), "computed": computed})),
                17 if r.chance(65) => match r.below(5) {
                    4 => steps.push(json!({"s": "scoped_store", "var": var, "words": [word(&mut r, 3), word(&mut r, 3)]})),
                    3 => steps.push(json!({"s": "next_store", "var": var, "words": [word(&mut r, 3), word(&mut r, 3), word(&mut r, 3)]})),
                    0 => steps.push(json!({"s": "interp_func", "var": var, "old": word(&mut r, 3), "new": word(&mut r, 3), "key": if r.chance(40) { json!(r.pick(&["K", "A", "k"])) } else { Value::Null }, "computed": computed})),
                    1 if var >= slots => steps.push(json!({"s": "nested_reset", "var": var, "program": program(&mut r), "computed": computed})),
                    _ => steps.push(json!({"s": "env_pops", "var": var, "key": r.pick(&["K", "PATH", "A", "k"]), "v": word(&mut r, 3)})),
                },
                18 if var >= slots => {
                    // replace the builder, then (usually) something that only looks like another write
                    steps.push(json!({"s": r.pick(&["reassign", "reassign", "block_reassign", "reset_func"]), "var": var, "program": program(&mut r), "computed": computed}));
                    match r.below(4) {
                        0 => {}
                        1 | 2 => steps.push(json!({"s": "maybe_reset", "var": var})),
                        _ => steps.push(json!({"s": "self_assign", "var": var})),
                    }
                }
                15 | 16 => {
                    // copy into a variable not made yet (plain vars) or any slot
                    let candidates: Vec<usize> = (0..nvars).filter(|v| *v < slots || !made.contains(v)).collect();
                    if !candidates.is_empty() {
                        let dst = r.pick(&candidates);
                        if dst != var {
                            steps.push(json!({"s": "copy", "var": dst, "from": var}));
                            if !made.contains(&dst) {
                                made.push(dst);
                            }
                        }
                    }
                }
                17 => {
                    let candidates: Vec<usize> = (slots..nvars).filter(|v| !made.contains(v)).collect();
                    if !candidates.is_empty() {
                        let v = r.pick(&candidates);
                        steps.push(json!({"s": "new", "var": v, "program": program(&mut r), "computed": computed}));
                        made.push(v);
                    }
                }
                _ => steps.push(json!({"s": "run", "var": var})),
            }
        }
        // a standard-input text of several pipe buffers (round 9: C15-25 cut the text at a multiple of 64 KiB)
        let big_stdin = r.chance(3);
        let last = r.pick(&made);
        if big_stdin {
            steps.push(json!({"s": "op", "var": last, "op": {"k": "stdin_text", "v": gen_big_text(&mut r, u64::MAX)}, "computed": false}));
        }
        steps.push(json!({"s": "run", "var": last}));
        if r.chance(25) {
            steps.push(json!({"s": "run", "var": r.pick(&made)}));
        }
        let mut spawn_errors = vec![];
        if r.chance(10) {
            spawn_errors.push(json!([r.below(2), r.pick(&[libc::ENOENT, libc::EACCES, libc::EAGAIN])]));
        }
        let mut rk = Rng::stream(seed, self.tag() ^ 0x5c4ed, i);
        let sched = json!({"mode": "random", "seed": rk.next() >> 1, "p_clock": 0, "sticky": if i % 2 == 0 { 0 } else { 90 }});
        json!({
            "allow": !r.chance(8), "caps": if big_stdin { json!({}) } else { small_caps(&mut r) }, "slots": slots, "steps": steps,
            "spawn_errors": spawn_errors, "pipe_cap": if big_stdin { r.pick(&[4096u64, 65_536]) } else { r.pick(&[1u64, 5, 4096]) }, "sched": sched,
        })
    }

    fn execute(&self, case: &Value) -> RunResult {
        if case["kind"] == "real" {
            return exec_real(case);
        }
        let mut res = RunResult::new();
        // once per process: two scripts in a row fail to spawn for different reasons; each must report
        // its own reason (nothing a run says may be left over from an earlier run in the same process)
        static SPAWN_TEXT_PROBED: std::sync::atomic::AtomicBool = std::sync::atomic::AtomicBool::new(false);
        if !SPAWN_TEXT_PROBED.swap(true, std::sync::atomic::Ordering::SeqCst) {
            for errno in [libc::ENOENT, libc::EACCES] {
                let cfg = world::Config {
                    scripts: vec![vec![ChildOp::Exit(0)]],
                    pipe_cap: 64,
                    epipe_die: true,
                    faults: world::Faults { spawn_errors: vec![(0, errno)], ..world::Faults::default() },
                    jitter_seed: 1,
                    keep_log: false,
                };
                let shared: Arc<Mutex<Option<pipeline::Outcome>>> = Arc::new(Mutex::new(None));
                let sh = shared.clone();
                let sched = SchedMode::Segments { segs: vec![] };
                let _ = hostsim::run_in_sim(cfg, &sched, true, 100_000, move || {
                    let policy = HostPolicy { allow_process: true, process: ProcessCaps::defaults() };
                    *sh.lock().unwrap() = Some(pipeline::run_library("make c get command(\"p\")\nmake r get c.run()\n", true, Some(policy)));
                });
                let want = std::io::Error::from_raw_os_error(errno).to_string();
                let got = shared.lock().unwrap().take();
                let ok = matches!(&got, Some(pipeline::Outcome::Ran { err, .. }) if err.first().is_some_and(|e| e.starts_with("Process spawn failed") && e.contains(&want)));
                if !ok {
                    return res.violation("stale-error-text", format!("a spawn refused with `{want}` was reported as {got:?}"));
                }
            }
        }
        let (src, exp) = build(case);
        let sched = SchedMode::from_json(&case["sched"]);
        let faults = world::Faults {
            spawn_errors: case["spawn_errors"]
                .as_array()
                .map(|a| a.iter().map(|e| (e[0].as_u64().unwrap() as u32, e[1].as_i64().unwrap() as i32)).collect())
                .unwrap_or_default(),
            ..world::Faults::default()
        };
        let cfg = world::Config {
            scripts: vec![vec![ChildOp::DrainStdin, ChildOp::Out { data: b"o".to_vec(), chunk: 8 }, ChildOp::Exit(0)]],
            pipe_cap: case["pipe_cap"].as_u64().unwrap_or(5) as usize,
            epipe_die: true,
            faults,
            jitter_seed: 1,
            keep_log: case["keep_log"].as_bool().unwrap_or(false),
        };
        let policy = HostPolicy { allow_process: case["allow"].as_bool().unwrap(), process: caps_of(&case["caps"]) };
        let shared: Arc<Mutex<Option<(pipeline::Outcome, WorldObs)>>> = Arc::new(Mutex::new(None));
        let sh = shared.clone();
        let src2 = src.clone();
        let run = hostsim::run_in_sim(cfg, &sched, true, 400_000, move || {
            let out = pipeline::run_library(&src2, true, Some(policy));
            let obs = hostsim::observe();
            *sh.lock().unwrap() = Some((out, obs));
        });
        let got = shared.lock().unwrap().take();
        res.trace_hash = fnv(0, src.as_bytes());
        res.detail = json!({"script": src, "decisions": run.decisions});
        if let Some(m) = &run.panic {
            let class = if m.contains("max_steps") { "no-progress" } else { "panic" };
            return res.violation(class, m.lines().next().unwrap_or("").to_string());
        }
        let Some((outcome, w)) = got else {
            return res.violation("harness", "the run did not return".into());
        };
        res.sim_ms = w.now_ms;
        res.trace_hash = fnv(res.trace_hash, &w.trace_hash.to_le_bytes());
        let (out, err) = match outcome {
            pipeline::Outcome::Rejected(m) => {
                res.verdict = Verdict::Discard(format!(
                    "rejected-by-checker:{}",
                    m.split('@').next().unwrap_or("").trim()
                ));
                return res;
            }
            pipeline::Outcome::Ran { out, err } => (out, err),
        };
        res.count("spawns", w.procs.len() as u64);
        res.count("stdin_texts_of_64k_and_more_delivered", w.procs.iter().filter(|p| p.written[0].len() >= 65_535).count() as u64);
        res.count("fault_spawn_errors", u64::from(w.spawn_failures));
        for (k, n) in &exp.refusals {
            res.count(&format!("refused_{k}"), *n);
        }
        res.count("runs_ending_normally", u64::from(exp.ending.is_none()));
        res.nontrivial = true;

        // 1. what the script printed and how it ended
        let printed: Vec<String> = out.iter().map(|b| String::from_utf8_lossy(b).into_owned()).collect();
        let ending = err.first().map(|e| e.split('@').next().unwrap_or("").to_string());
        // "refused before anything is spawned": never more children than the model allows
        if w.procs.len() > exp.spawns.len() {
            let extra = &w.procs[exp.spawns.len()].req;
            return res.violation(
                "spawned-although-refused",
                format!(
                    "{} children spawned, the configuration allows {}; extra: {:?} {:?} (script ended with {:?})",
                    w.procs.len(),
                    exp.spawns.len(),
                    String::from_utf8_lossy(&extra.program),
                    extra.args.iter().map(|a| String::from_utf8_lossy(a).into_owned()).collect::<Vec<_>>(),
                    ending
                ),
            );
        }
        match (&exp.ending, &ending) {
            (None, None) => {}
            (Some(kinds), Some(e)) => {
                // a refusal must be *a* process runtime error before anything is spawned; which of the
                // refusal diagnostics it is (policy or configuration; both apply at once sometimes) is not
                // part of the statement. An injected spawn failure must surface as the spawn error.
                let refusals = ["Process execution denied", "Invalid process configuration"];
                let ok = kinds.contains(&e.as_str()) || (refusals.contains(&kinds[0]) && refusals.contains(&e.as_str()));
                if !ok {
                    return res.violation("wrong-refusal", format!("script ended with `{e}`, expected one of {kinds:?}"));
                }
            }
            (None, Some(e)) => {
                return res.violation("unexpected-error", format!("script ended with `{e}`, expected to complete"));
            }
            (Some(kinds), None) => {
                return res.violation(
                    "not-refused",
                    format!("script completed ({} spawns), expected it to end with {kinds:?}", w.procs.len()),
                );
            }
        }
        if printed != exp.printed {
            return res.violation("wrong-progress", format!("printed {printed:?}, expected {:?}", exp.printed));
        }
        if w.procs.len() != exp.spawns.len() {
            return res.violation(
                "missing-spawn",
                format!("{} children spawned, expected {}", w.procs.len(), exp.spawns.len()),
            );
        }
        // 2. every spawn request equals the model
        for (k, (p, m)) in w.procs.iter().zip(&exp.spawns).enumerate() {
            let lossy = |b: &[u8]| String::from_utf8_lossy(b).into_owned();
            if p.req.program != m.program.as_bytes() {
                return res.violation("wrong-program", format!("spawn {k}: program {:?}, expected {:?}", lossy(&p.req.program), m.program));
            }
            let args: Vec<String> = p.req.args.iter().map(|a| lossy(a)).collect();
            if args != m.args {
                return res.violation("wrong-argv", format!("spawn {k}: argv {args:?}, expected {:?}", m.args));
            }
            let cwd = p.req.cwd.as_ref().map(|c| lossy(c));
            if cwd != m.cwd {
                return res.violation("wrong-cwd", format!("spawn {k}: cwd {cwd:?}, expected {:?}", m.cwd));
            }
            let mut envm: BTreeMap<String, String> = BTreeMap::new();
            for (key, v) in &m.env {
                envm.insert(key.clone(), v.clone());
            }
            let mut envg: BTreeMap<String, String> = BTreeMap::new();
            for (key, v) in &p.req.env {
                envg.insert(lossy(key), lossy(v));
            }
            if envg != envm {
                return res.violation("wrong-env", format!("spawn {k}: env {envg:?}, expected {envm:?}"));
            }
            let io = [m.stdin.0, [0, 1, 2][m.out as usize], [0, 1, 2][m.err as usize]];
            if p.req.stdio != io {
                return res.violation("wrong-stdio", format!("spawn {k}: stdio {:?}, expected {io:?}", p.req.stdio));
            }
            if m.stdin.0 == 2 && p.written[0] != m.stdin.1.as_bytes() {
                return res.violation(
                    "wrong-stdin",
                    format!(
                        "spawn {k}: child read {} bytes {:?} from stdin, expected {} bytes {:?}",
                        p.written[0].len(),
                        abbreviate(&lossy(&p.written[0])),
                        m.stdin.1.len(),
                        abbreviate(&m.stdin.1)
                    ),
                );
            }
            if m.stdin.0 != 2 && !p.written[0].is_empty() {
                return res.violation("wrong-stdin", format!("spawn {k}: child read {} bytes from a non-text stdin", p.written[0].len()));
            }
            if p.exit.is_none() || !p.reaped {
                return res.violation("child-left-running", format!("spawn {k}: child not reaped"));
            }
        }
        if exp.spawn_fault_hit && w.spawn_failures == 0 {
            return res.violation("harness", "model expected an injected spawn failure that did not fire".into());
        }
        res
    }

    fn concretise(&self, case: &Value, r: &RunResult, final_: bool) -> Value {
        hostsim::concretise_schedule(case, r, final_)
    }

    fn shrink(&self, case: &Value) -> Vec<Value> {
        let mut v = vec![];
        let set = |k: &str, x: Value| {
            let mut c = case.clone();
            c[k] = x;
            c
        };
        if case["shape"] == "path-sh" {
            return v;
        }
        if case["kind"] == "real" {
            for key in ["args", "env"] {
                let a = case[key].as_array().unwrap();
                for i in 0..a.len() {
                    let mut b = a.clone();
                    b.remove(i);
                    v.push(set(key, json!(b)));
                }
            }
            if !case["cwd"].is_null() {
                v.push(set("cwd", Value::Null));
            }
            if case["stdin"] != "null" {
                v.push(set("stdin", json!("null")));
            }
            if !case["prog_form"].is_null() && case["prog_form"] != "plain" {
                v.push(set("prog_form", json!("plain")));
            }
            return v;
        }
        let steps = case["steps"].as_array().unwrap();
        for i in (0..steps.len()).rev() {
            let mut s = steps.clone();
            s.remove(i);
            // keep scripts well-formed: every used variable must still be made
            if well_formed(&s, case["slots"].as_u64().unwrap_or(0) as usize) {
                v.push(set("steps", json!(s)));
            }
        }
        for i in 0..steps.len() {
            match steps[i]["s"].as_str().unwrap() {
                "loop_op" | "via_func" | "touch_func" | "cap_func" | "shadow_func" => {
                    let mut s = steps.clone();
                    s[i]["s"] = json!("op");
                    v.push(set("steps", json!(s)));
                }
                _ => {}
            }
            if steps[i]["computed"] == true {
                let mut s = steps.clone();
                s[i]["computed"] = json!(false);
                v.push(set("steps", json!(s)));
            }
            // simplify strings
            for key in ["program"] {
                if let Some(p) = steps[i][key].as_str()
                    && p != "p"
                {
                    let mut s = steps.clone();
                    s[i][key] = json!("p");
                    v.push(set("steps", json!(s)));
                }
            }
            if let Some(x) = steps[i]["op"]["v"].as_str()
                && x.chars().count() > 1
            {
                let mut s = steps.clone();
                let half: String = x.chars().take(x.chars().count() / 2).collect();
                s[i]["op"]["v"] = json!(half);
                v.push(set("steps", json!(s)));
            }
        }
        if case["caps"].as_object().is_some_and(|o| !o.is_empty()) {
            v.push(set("caps", json!({})));
            for k in case["caps"].as_object().unwrap().keys() {
                let mut c = case["caps"].clone();
                c.as_object_mut().unwrap().remove(k);
                v.push(set("caps", c));
            }
        }
        if !case["spawn_errors"].as_array().unwrap().is_empty() {
            v.push(set("spawn_errors", json!([])));
        }
        if case["slots"].as_u64().unwrap_or(0) > 0 && well_formed(steps, 0) {
            v.push(set("slots", json!(0)));
        }
        if case["sched"]["mode"] == "segments" {
            let segs = case["sched"]["segs"].as_array().unwrap();
            v.extend(hostsim::segment_deletions(segs).into_iter().map(|s| set("sched", json!({"mode": "segments", "segs": s}))));
        }
        v
    }

    fn sample(&self, case: &Value) -> Value {
        if case["kind"] == "real" {
            return case.clone();
        }
        let (src, _) = build(case);
        json!({"allow": case["allow"], "caps": case["caps"], "spawn_errors": case["spawn_errors"], "script": src})
    }

    fn rule(&self) -> String {
        "case = host policy (allow_process, every ProcessCaps field drawn small so each limit is hit at limit-1/limit/limit+1) \
         x builder history over 1-3 commands (arg/env with repeated keys/cwd/stdin_*/stdout_*/stderr_*/timeout_ms through plain \
         variables, array slots, copies, functions that return or discard their mutated copy, helpers that mutate the builder they capture (result unused; also called from a function with a local of the same name), loop bodies; adversarial strings: \
         spaces, quotes, $HOME, globs, ;|&, newline, backslash, NUL, '=', braces, multi-byte; numbers, booleans, arrays as values; \
         literals and run-time concatenations) x run() calls x injected spawn errors x 2 schedules. Every run is non-trivial \
         (each ends in at least one spawn or refusal); distinct = hash of script text and world history."
            .into()
    }
    fn assumptions(&self) -> Vec<String> {
        vec![
            "std::process::Command is a stub that records program/args/env/cwd/stdio: that the OS delivers what std was given (no shell) is trusted; a change that routes through a shell is still seen because the recorded program and arguments change".into(),
            "when a command is both forbidden by policy and invalid either refusal is accepted".into(),
            "programs the static checker rejects are discarded and counted".into(),
        ]
    }
    fn components(&self) -> Value {
        json!({"real": ["src/process.rs (builder, validate, caps, clone_into)", "runtime dispatch (eval_process_command_call[_mut], get_mutable_process_command, eval_timeout_ms, policy gate, value copies/promotion of host values)",
                        "src/sys/process_common.rs run_host_process", "lexer/parser/resolver"],
               "stub": ["std::process::Command/Child/pipes, threads, clock (simulated host)"]})
    }
}

/// Every step's variable must have been made (new/copy) before it is used.
fn well_formed(steps: &[Value], slots: usize) -> bool {
    let mut made: Vec<usize> = vec![];
    let mut array_declared = false;
    for st in steps {
        let var = st["var"].as_u64().unwrap_or(0) as usize;
        match st["s"].as_str().unwrap() {
            "new" => {
                if var < slots {
                    if !array_declared {
                        array_declared = true;
                        for k in 0..slots {
                            if !made.contains(&k) {
                                made.push(k);
                            }
                        }
                    }
                } else if made.contains(&var) {
                    // `make` of an existing name re-declares it: fine
                }
                if !made.contains(&var) {
                    made.push(var);
                }
            }
            "copy" => {
                let from = st["from"].as_u64().unwrap() as usize;
                if !made.contains(&from) {
                    return false;
                }
                if var < slots && !array_declared {
                    return false;
                }
                if !made.contains(&var) {
                    made.push(var);
                }
            }
            _ => {
                if !made.contains(&var) {
                    return false;
                }
            }
        }
    }
    steps.iter().any(|s| s["s"] == "run")
}

// ------------------------------------------------------------------ real operating system

fn real_word(r: &mut Rng, maxlen: u64) -> String {
    // no NUL here: refusals are generated on purpose below
    loop {
        let w = word(r, maxlen);
        if !w.contains('\0') {
            return w;
        }
    }
}

fn gen_real(r: &mut Rng) -> Value {
    let nargs = r.usize(0, 5);
    let args: Vec<String> = (0..nargs).map(|_| real_word(r, 4)).collect();
    let nenv = r.usize(0, 4);
    let env: Vec<Value> = (0..nenv)
        .map(|_| {
            let k = format!("VK_{}", r.pick(&["A", "B", "A", "long_key_name"]));
            json!([k, real_word(r, 4)])
        })
        .collect();
    // directory names that a shell would mangle
    let cwd = if r.chance(50) { json!(r.pick(&["plain", "with space", "qu\"ote", "$HOME", "star*", "semi;colon", "日本", "a\\b", "-dash"])) } else { Value::Null };
    let stdin = match r.below(12) {
        0..=3 => json!("null"),
        // the helper reports what it read in hex through the captured stdout (1 MiB limit)
        4 => json!({"big": gen_big_text(r, 300_001)}),
        _ => json!({"text": real_word(r, 6)}),
    };
    // sometimes a configuration that must be refused before anything is spawned
    let refuse = match r.below(8) {
        0 => "nul-arg",
        1 => "eq-key",
        2 => "empty-cwd",
        3 => "timeout-zero",
        _ => "",
    };
    let prog_form = r.pick(&["plain", "plain", "dot", "symlink"]);
    json!({"kind": "real", "args": args, "env": env, "cwd": cwd, "stdin": stdin, "refuse": refuse, "computed": r.chance(40), "prog_form": prog_form})
}

/// The un-hooked `naija` binary runs the builder script against the real OS; the real helper
/// child reports what it received.
/// The script overrides PATH and names its program without a slash; the file found there is
/// executable but is neither a binary nor a `#!` script. Running it directly is an "Exec format error";
/// whatever happens, no shell may interpret it.
fn exec_real_path_sh(case: &Value) -> RunResult {
    use std::os::unix::fs::PermissionsExt;
    let mut res = RunResult::new();
    res.trace_hash = fnv(0, &serde_json::to_vec(case).unwrap());
    res.nontrivial = true;
    res.count("real_os_cross_checks", 1);
    res.count("real_bare_name_through_overridden_path", 1);
    let dir = format!("{}/pathdir", realos::tmp_dir());
    let _ = std::fs::create_dir_all(&dir);
    let marker = format!("{dir}/interpreted.marker");
    let _ = std::fs::remove_file(&marker);
    let tool = format!("{dir}/vktool");
    // a shell would run this line; nothing else can make sense of the file
    if std::fs::write(&tool, format!("echo \"$0 $# $1\" > '{marker}'\n")).is_err()
        || std::fs::set_permissions(&tool, std::fs::Permissions::from_mode(0o755)).is_err()
    {
        res.verdict = Verdict::Discard("cannot-create-tool".into());
        return res;
    }
    let mut src = format!("make c get command(\"vktool\")\nc.env(\"PATH\", {})\n", strlit(&dir));
    for a in case["args"].as_array().unwrap() {
        src += &format!("c.arg({})\n", strlit(a.as_str().unwrap()));
    }
    src += "c.stdout_capture()\nmake r get c.run()\nshout(r.exit_code())\n";
    let run = match realos::run_naija(&src, None) {
        Ok(r) => r,
        Err(m) => return res.violation("harness", m),
    };
    res.detail = json!({"script": src});
    if let Ok(seen) = std::fs::read_to_string(&marker) {
        return res.violation(
            "shell-ran-the-program-file",
            format!("real OS: `command(\"vktool\")` with PATH overridden to a directory holding an executable text file without `#!`: a shell interpreted the file (it saw `$0 $# $1` = {:?}); naija exited {}", seen.trim().replace(&dir, "<dir>"), run.code),
        );
    }
    res
}

fn exec_real(case: &Value) -> RunResult {
    if case["shape"] == "path-sh" {
        return exec_real_path_sh(case);
    }
    let mut res = RunResult::new();
    res.trace_hash = fnv(0, &serde_json::to_vec(case).unwrap());
    res.nontrivial = true;
    res.count("real_os_cross_checks", 1);
    let helper = match realos::realchild_bin() {
        Ok(h) => h,
        Err(m) => return res.violation("harness", m),
    };
    let computed = case["computed"].as_bool().unwrap_or(false);
    let dir = realos::tmp_dir();
    let marker = format!("{dir}/spawned.marker");
    let _ = std::fs::remove_file(&marker);
    let lit = |s: &str| val_lit(&json!(s), computed);
    // the program string: the helper's path as it is, with a `/./` component, or through a symbolic
    // link whose name a shell would split - the child must see exactly that string as its argv[0]
    let helper = match case["prog_form"].as_str().unwrap_or("plain") {
        "dot" => match helper.rfind('/') {
            Some(k) => format!("{}/./{}", &helper[..k], &helper[k + 1..]),
            None => helper,
        },
        "symlink" => {
            let link = format!("{dir}/tool link");
            let _ = std::fs::remove_file(&link);
            if std::os::unix::fs::symlink(&helper, &link).is_err() {
                res.verdict = Verdict::Discard("cannot-create-symlink".into());
                return res;
            }
            link
        }
        _ => helper,
    };
    let mut src = format!("make c get command({})\nc.arg(\"report\")\n", strlit(&helper));
    let args: Vec<String> = case["args"].as_array().unwrap().iter().map(|a| a.as_str().unwrap().to_string()).collect();
    for a in &args {
        src += &format!("c.arg({})\n", lit(a));
    }
    let mut envm: BTreeMap<String, String> = BTreeMap::new();
    src += &format!("c.env(\"VK_MARKER\", {})\n", strlit(&marker));
    envm.insert("VK_MARKER".into(), marker.clone());
    for e in case["env"].as_array().unwrap() {
        let (k, v) = (e[0].as_str().unwrap(), e[1].as_str().unwrap());
        src += &format!("c.env({}, {})\n", lit(k), lit(v));
        envm.insert(k.to_string(), v.to_string());
    }
    let mut cwd_path: Option<String> = None;
    if let Some(name) = case["cwd"].as_str() {
        let p = format!("{dir}/{name}");
        if std::fs::create_dir_all(&p).is_err() {
            res.verdict = Verdict::Discard("cannot-create-cwd".into());
            return res;
        }
        src += &format!("c.cwd({})\n", lit(&p));
        cwd_path = Some(p);
    }
    let mut stdin_text: Option<String> = None;
    match &case["stdin"] {
        Value::String(_) => src += "c.stdin_null()\n",
        o => {
            let t = big_text(&o["big"]).unwrap_or_else(|| o["text"].as_str().unwrap_or("").to_string());
            src += &format!("c.stdin_text({})\n", lit(&t));
            stdin_text = Some(t);
        }
    }
    let refuse = case["refuse"].as_str().unwrap_or("");
    match refuse {
        "nul-arg" => src += "c.arg(\"a\0b\")\n",
        "eq-key" => src += "c.env(\"VK=X\", \"v\")\n",
        "empty-cwd" => src += "c.cwd(\"\")\n",
        "timeout-zero" => src += "c.timeout_ms(0)\n",
        _ => {}
    }
    src += "c.stdout_capture()\nmake r get c.run()\nshout(r.exit_code())\nshout(r.stdout())\n";
    let run = match realos::run_naija(&src, None) {
        Ok(r) => r,
        Err(m) => return res.violation("harness", m),
    };
    let out = String::from_utf8_lossy(&run.stdout).into_owned();
    res.detail = json!({"script": src});
    let spawned = std::path::Path::new(&marker).exists();
    if !refuse.is_empty() {
        res.count("real_refusals", 1);
        if spawned {
            return res.violation("spawned-although-refused", format!("real OS: the helper ran although the command must be refused ({refuse})"));
        }
        if run.code == 0 || !out.contains("Invalid process configuration") {
            return res.violation("not-refused", format!("real OS: expected `Invalid process configuration` ({refuse}), naija exited {} with {:?}", run.code, out.chars().take(200).collect::<String>()));
        }
        return res;
    }
    res.count("real_spawns", 1);
    if run.code != 0 {
        return res.violation("unexpected-error", format!("real OS: naija exited {} : {:?} / {:?}", run.code, out.chars().take(300).collect::<String>(), String::from_utf8_lossy(&run.stderr).chars().take(200).collect::<String>()));
    }
    // the helper touches the marker itself? no: it only reports; the marker proves env delivery
    let mut lines = out.lines();
    if lines.next() != Some("0") {
        return res.violation("wrong-exit-code", format!("real OS: helper exit code printed as {:?}", out.lines().next()));
    }
    let mut got_arg0: Option<Vec<u8>> = None;
    let mut got_args: Vec<Vec<u8>> = vec![];
    let mut got_env: BTreeMap<String, String> = BTreeMap::new();
    let mut got_cwd: Option<Vec<u8>> = None;
    let mut got_stdin: Option<Vec<u8>> = None;
    let mut complete = false;
    for l in lines {
        let mut it = l.split(' ');
        match it.next() {
            Some("arg0") => got_arg0 = Some(realos::unhex(it.next().unwrap_or(""))),
            Some("arg") => got_args.push(realos::unhex(it.next().unwrap_or(""))),
            Some("env") => {
                let k = String::from_utf8_lossy(&realos::unhex(it.next().unwrap_or(""))).into_owned();
                let v = String::from_utf8_lossy(&realos::unhex(it.next().unwrap_or(""))).into_owned();
                got_env.insert(k, v);
            }
            Some("cwd") => got_cwd = Some(realos::unhex(it.next().unwrap_or(""))),
            Some("stdin") => got_stdin = Some(realos::unhex(it.next().unwrap_or(""))),
            Some("end") => complete = true,
            _ => {}
        }
    }
    if !complete {
        return res.violation("harness", format!("real OS: helper report incomplete: {:?}", out.chars().take(300).collect::<String>()));
    }
    if got_arg0.as_deref() != Some(helper.as_bytes()) {
        return res.violation(
            "wrong-program",
            format!("real OS: the child's program name is {:?}, the script said {helper:?}", got_arg0.map(|c| String::from_utf8_lossy(&c).into_owned())),
        );
    }
    let want_args: Vec<Vec<u8>> = args.iter().map(|a| a.as_bytes().to_vec()).collect();
    if got_args != want_args {
        let show = |v: &Vec<Vec<u8>>| v.iter().map(|a| String::from_utf8_lossy(a).into_owned()).collect::<Vec<_>>();
        return res.violation("wrong-argv", format!("real OS: child received argv {:?}, expected {:?}", show(&got_args), show(&want_args)));
    }
    if got_env != envm {
        return res.violation("wrong-env", format!("real OS: child sees VK_* environment {got_env:?}, expected {envm:?}"));
    }
    if let Some(p) = &cwd_path
        && got_cwd.as_deref() != Some(p.as_bytes())
    {
        return res.violation("wrong-cwd", format!("real OS: child cwd {:?}, expected {p:?}", got_cwd.map(|c| String::from_utf8_lossy(&c).into_owned())));
    }
    let want_stdin = stdin_text.unwrap_or_default();
    if got_stdin.as_deref() != Some(want_stdin.as_bytes()) {
        return res.violation(
            "wrong-stdin",
            format!(
                "real OS: child read {:?} from stdin, expected {} bytes {:?}",
                got_stdin.map(|c| format!("{} bytes {}", c.len(), abbreviate(&String::from_utf8_lossy(&c)))),
                want_stdin.len(),
                abbreviate(&want_stdin)
            ),
        );
    }
    res
}
