//! Shared machinery: engine interface, worker processes with crash attribution, confirmation,
//! minimisation, replay files, known findings, evidence.
use std::collections::{BTreeMap, HashSet, VecDeque};
use std::io::{BufRead, BufReader, Read, Write};
use std::path::{Path, PathBuf};
use std::process::{Command, Stdio};
use std::sync::{Arc, Mutex};
use std::time::{Duration, Instant};

use serde_json::{Value, json};

#[derive(Clone, Copy, Debug, PartialEq, Eq)]
pub enum Tier {
    Quick,
    Thorough,
}
impl Tier {
    pub fn name(self) -> &'static str {
        match self {
            Tier::Quick => "quick",
            Tier::Thorough => "thorough",
        }
    }
    pub fn parse(s: &str) -> Tier {
        if s == "thorough" { Tier::Thorough } else { Tier::Quick }
    }
}

#[derive(Clone, Debug, PartialEq)]
pub enum Verdict {
    Pass,
    /// not a verdict about the property: the case fell outside the statement's quantifier
    Discard(String),
    Violation {
        class: String,
        msg: String,
    },
}

#[derive(Clone, Debug)]
pub struct RunResult {
    pub verdict: Verdict,
    /// hash of what happened (scenario + recorded history); addresses never enter it
    pub trace_hash: u64,
    /// did the run meet the engine's non-triviality rule
    pub nontrivial: bool,
    /// fault kinds that actually fired, probes, outcome classes
    pub counters: BTreeMap<String, u64>,
    pub sim_ms: u64,
    /// engine-specific details worth keeping in a replay file
    pub detail: Value,
}

impl RunResult {
    pub fn new() -> Self {
        RunResult {
            verdict: Verdict::Pass,
            trace_hash: 0,
            nontrivial: false,
            counters: BTreeMap::new(),
            sim_ms: 0,
            detail: Value::Null,
        }
    }
    pub fn count(&mut self, k: &str, n: u64) {
        *self.counters.entry(k.to_string()).or_default() += n;
    }
    pub fn violation(mut self, class: &str, msg: String) -> Self {
        self.verdict = Verdict::Violation { class: class.to_string(), msg };
        self
    }
    pub fn to_json(&self) -> Value {
        let v = match &self.verdict {
            Verdict::Pass => json!({"k": "pass"}),
            Verdict::Discard(r) => json!({"k": "discard", "r": r}),
            Verdict::Violation { class, msg } => json!({"k": "violation", "c": class, "m": msg}),
        };
        json!({"v": v, "h": format!("{:016x}", self.trace_hash), "n": self.nontrivial,
               "c": self.counters, "t": self.sim_ms, "d": self.detail})
    }
    pub fn from_json(j: &Value) -> Option<Self> {
        let v = &j["v"];
        let verdict = match v["k"].as_str()? {
            "pass" => Verdict::Pass,
            "discard" => Verdict::Discard(v["r"].as_str()?.to_string()),
            _ => Verdict::Violation {
                class: v["c"].as_str()?.to_string(),
                msg: v["m"].as_str()?.to_string(),
            },
        };
        let mut counters = BTreeMap::new();
        if let Some(o) = j["c"].as_object() {
            for (k, x) in o {
                counters.insert(k.clone(), x.as_u64().unwrap_or(0));
            }
        }
        Some(RunResult {
            verdict,
            trace_hash: u64::from_str_radix(j["h"].as_str()?, 16).ok()?,
            nontrivial: j["n"].as_bool()?,
            counters,
            sim_ms: j["t"].as_u64().unwrap_or(0),
            detail: j["d"].clone(),
        })
    }
}

pub trait Engine: Sync {
    fn id(&self) -> &'static str;
    fn tag(&self) -> u64;
    /// build profiles whose worker binaries run this engine
    fn profiles(&self, tier: Tier) -> Vec<&'static str>;
    /// number of cases per profile
    fn runs(&self, tier: Tier, profile: &str) -> u64;
    /// the materialised case for run `i`; a pure function of (seed, i, tier)
    fn generate(&self, seed: u64, i: u64, tier: Tier) -> Value;
    fn execute(&self, case: &Value) -> RunResult;
    /// simpler variants of a failing case, most aggressive first
    fn shrink(&self, case: &Value) -> Vec<Value>;
    /// Turns what a failing run recorded (e.g. scheduler decisions) into an explicit part of the
    /// case, so that minimisation and replay work on the materialised execution.
    /// `final_` = produce the form stored in the replay file.
    fn concretise(&self, case: &Value, _r: &RunResult, _final: bool) -> Value {
        case.clone()
    }
    /// a worker died while executing a case
    fn classify_crash(&self, how: &str, stderr_tail: &str, _stage: &str) -> Verdict {
        Verdict::Violation {
            class: "crash".into(),
            msg: format!("worker died ({how}): {}", last_lines(stderr_tail, 6)),
        }
    }
    /// a short rendition of a case for the evidence file
    fn sample(&self, case: &Value) -> Value {
        case.clone()
    }
    fn rule(&self) -> String;
    fn assumptions(&self) -> Vec<String>;
    fn components(&self) -> Value;
    /// stable identifier of *what* failed, matched against known_findings.jsonl
    fn signature(&self, _case: &Value, class: &str, _msg: &str) -> String {
        class.to_string()
    }
    /// extra work once per check run (e.g. systematic sweeps); results are merged in
    fn extra(&self, _ctx: &Ctx, _agg: &mut Aggregate) {}
}

pub fn last_lines(s: &str, n: usize) -> String {
    // prefer the panic message over the backtrace that follows it
    let all: Vec<&str> = s.lines().filter(|l| !l.trim().is_empty()).collect();
    if let Some(p) = all.iter().rposition(|l| l.contains("panicked at")) {
        let mut v: Vec<&str> = all[p..].iter().take(3).copied().collect();
        if let Some(l) = all.iter().rev().find(|l| l.contains("non-unwinding") || l.contains("memory allocation of")) {
            v.push(l);
        }
        return v.join(" | ");
    }
    all[all.len().saturating_sub(n)..].join(" | ")
}

/// A stable, process-independent label for how a worker died (no thread ids or addresses).
pub fn crash_kind(tail: &str) -> &'static str {
    if tail.contains("arena capacity exceeded") {
        "arena capacity exceeded"
    } else if tail.contains("memory allocation of") {
        "memory allocation failed"
    } else if tail.contains("entered unreachable code") {
        "internal unreachable!() reached"
    } else if tail.contains("unsafe precondition") {
        "unsafe precondition violated"
    } else if tail.contains("panicked at") {
        "panic"
    } else if tail.contains("stack overflow") {
        "native stack overflow"
    } else {
        "killed by a signal"
    }
}

pub struct Ctx {
    pub seed: u64,
    pub tier: Tier,
    pub jobs: usize,
    pub verif_dir: PathBuf,
    pub tmp_dir: PathBuf,
    pub deadline: Option<Instant>,
}

impl Ctx {
    pub fn bin(&self, profile: &str) -> PathBuf {
        if let Ok(p) = std::env::var(format!("SIMCHECK_BIN_{profile}")) {
            return PathBuf::from(p);
        }
        // sibling profile directory of the running binary
        let me = std::env::current_exe().expect("current_exe");
        let dir = me.parent().and_then(Path::parent).expect("target dir");
        dir.join(profile).join("simcheck")
    }
}

// ------------------------------------------------------------------ worker side

/// Points fd 1 at /dev/null (the interpreter println!s every `shout`) and returns the original
/// stdout for the protocol.
pub fn protocol_out() -> std::fs::File {
    use std::os::fd::FromRawFd;
    unsafe {
        // close-on-exec: processes started by a run (the real naija binary and its children) must not
        // inherit the protocol pipe, or the parent would wait for them instead of for the worker
        let fd = libc::fcntl(1, libc::F_DUPFD_CLOEXEC, 3);
        let devnull = std::ffi::CString::new("/dev/null").unwrap();
        let n = libc::open(devnull.as_ptr(), libc::O_WRONLY);
        libc::dup2(n, 1);
        libc::close(n);
        std::fs::File::from_raw_fd(fd)
    }
}

static PROTO: Mutex<Option<std::fs::File>> = Mutex::new(None);

fn proto_line(line: &str) {
    if let Some(f) = PROTO.lock().unwrap().as_mut() {
        writeln!(f, "{line}").unwrap();
        f.flush().unwrap();
    }
}

/// Tells the parent how far the current run got (so that a worker death can be attributed to
/// the reference execution or to the execution under test).
pub fn stage(name: &str) {
    proto_line(&format!("P {name}"));
}

pub fn worker_main(e: &dyn Engine, seed: u64, lo: u64, hi: u64, tier: Tier) {
    *PROTO.lock().unwrap() = Some(protocol_out());
    for i in lo..hi {
        let case = e.generate(seed, i, tier);
        proto_line(&format!("B {i}"));
        let r = e.execute(&case);
        proto_line(&format!("E {i} {}", r.to_json()));
    }
}

pub fn exec_main(e: &dyn Engine, file: &str) {
    *PROTO.lock().unwrap() = Some(protocol_out());
    let text = std::fs::read_to_string(file).expect("case file");
    let j: Value = serde_json::from_str(&text).expect("case json");
    let case = if j.get("case").is_some() { j["case"].clone() } else { j };
    proto_line("B 0");
    let r = e.execute(&case);
    proto_line(&format!("E 0 {}", r.to_json()));
}

// ------------------------------------------------------------------ parent side

#[derive(Default)]
pub struct Aggregate {
    pub evaluations: u64,
    pub passes: u64,
    pub discards: BTreeMap<String, u64>,
    pub nontrivial: u64,
    pub distinct: HashSet<u64>,
    pub distinct_all: HashSet<u64>,
    pub counters: BTreeMap<String, u64>,
    pub sim_ms: u64,
    pub violations: Vec<Found>,
    pub per_profile: BTreeMap<String, u64>,
    pub samples: Vec<Value>,
    pub notes: Vec<String>,
    /// (profile, index) -> trace hash, only when requested (determinism self-test)
    pub hashes: Option<BTreeMap<(String, u64), (u64, String)>>,
}

#[derive(Clone, Debug)]
pub struct Found {
    pub profile: String,
    pub index: u64,
    pub class: String,
    pub msg: String,
}

impl Aggregate {
    pub fn absorb(&mut self, profile: &str, i: u64, r: &RunResult) {
        self.evaluations += 1;
        *self.per_profile.entry(profile.to_string()).or_default() += 1;
        self.sim_ms += r.sim_ms;
        for (k, v) in &r.counters {
            *self.counters.entry(k.clone()).or_default() += v;
        }
        self.distinct_all.insert(r.trace_hash);
        if let Some(h) = &mut self.hashes {
            h.insert((profile.to_string(), i), (r.trace_hash, format!("{:?}", r.verdict)));
        }
        match &r.verdict {
            Verdict::Pass => {
                self.passes += 1;
                if r.nontrivial {
                    self.nontrivial += 1;
                    self.distinct.insert(r.trace_hash);
                }
            }
            Verdict::Discard(why) => {
                *self.discards.entry(why.clone()).or_default() += 1;
            }
            Verdict::Violation { class, msg } => {
                self.violations.push(Found {
                    profile: profile.to_string(),
                    index: i,
                    class: class.clone(),
                    msg: msg.clone(),
                });
            }
        }
    }
}

struct Chunk {
    profile: String,
    lo: u64,
    hi: u64,
}

/// Runs one worker process over [lo, hi). If it dies, the run it was in is attributed and a
/// new worker continues after it.
fn run_chunk(e: &dyn Engine, ctx: &Ctx, ch: &Chunk, agg: &Mutex<Aggregate>, wid: usize) {
    let mut lo = ch.lo;
    let errfile = ctx.tmp_dir.join(format!("w{}-{}.stderr", std::process::id(), wid));
    while lo < ch.hi {
        let ef = std::fs::File::create(&errfile).expect("stderr file");
        let mut child = Command::new(ctx.bin(&ch.profile))
            .args([
                "worker",
                e.id(),
                &ctx.seed.to_string(),
                &lo.to_string(),
                &ch.hi.to_string(),
                ctx.tier.name(),
            ])
            .env("RUST_BACKTRACE", "0")
            .stdin(Stdio::null())
            .stdout(Stdio::piped())
            .stderr(ef)
            .spawn()
            .unwrap_or_else(|err| {
                eprintln!("harness error: cannot start worker {:?}: {err}", ctx.bin(&ch.profile));
                std::process::exit(2)
            });
        let pid = child.id();
        let stdout = child.stdout.take().unwrap();
        let progress = Arc::new(Mutex::new((Instant::now(), false)));
        let p2 = progress.clone();
        // watchdog: a single run that makes no progress for this long is a hang
        let limit = Duration::from_secs(
            std::env::var("VERIF_HANG_SECS").ok().and_then(|s| s.parse().ok()).unwrap_or(180),
        );
        let wd = std::thread::spawn(move || {
            loop {
                std::thread::sleep(Duration::from_millis(500));
                let (t, done) = *p2.lock().unwrap();
                if done {
                    return false;
                }
                if t.elapsed() > limit {
                    unsafe { libc::kill(pid as i32, libc::SIGKILL) };
                    return true;
                }
            }
        });
        let mut current: Option<u64> = None;
        let mut stage = String::new();
        let mut next = lo;
        for line in BufReader::new(stdout).lines() {
            let Ok(line) = line else { break };
            progress.lock().unwrap().0 = Instant::now();
            if let Some(rest) = line.strip_prefix("B ") {
                current = rest.trim().parse().ok();
                stage.clear();
            } else if let Some(rest) = line.strip_prefix("P ") {
                stage = rest.trim().to_string();
            } else if let Some(rest) = line.strip_prefix("E ") {
                let (idx, js) = rest.split_once(' ').unwrap_or((rest, "null"));
                let i: u64 = idx.parse().unwrap_or(u64::MAX);
                match serde_json::from_str::<Value>(js).ok().and_then(|j| RunResult::from_json(&j))
                {
                    Some(r) => agg.lock().unwrap().absorb(&ch.profile, i, &r),
                    None => {
                        eprintln!("harness error: bad worker line: {line}");
                        std::process::exit(2);
                    }
                }
                current = None;
                next = i + 1;
            }
        }
        let status = child.wait().expect("wait worker");
        progress.lock().unwrap().1 = true;
        let hung = wd.join().unwrap_or(false);
        if status.success() && current.is_none() {
            break;
        }
        // the worker died
        let mut tail = String::new();
        if let Ok(mut f) = std::fs::File::open(&errfile) {
            let mut s = Vec::new();
            let _ = f.read_to_end(&mut s);
            let s = String::from_utf8_lossy(&s);
            let start = s.len().saturating_sub(4000);
            let start = (start..s.len()).find(|k| s.is_char_boundary(*k)).unwrap_or(s.len());
            tail = s[start..].to_string();
        }
        let how = describe_status(&status, hung);
        match current {
            Some(i) => {
                let mut r = RunResult::new();
                r.verdict = if hung {
                    Verdict::Violation {
                        class: "hang".into(),
                        msg: format!("no progress for {} s", limit.as_secs()),
                    }
                } else {
                    e.classify_crash(&how, &tail, &stage)
                };
                r.trace_hash = crate::rng::fnv_u64(0xdead, i);
                agg.lock().unwrap().absorb(&ch.profile, i, &r);
                lo = i + 1;
            }
            None => {
                eprintln!(
                    "harness error: worker for {} [{}..{}) ended ({how}) outside a run: {}",
                    e.id(),
                    next,
                    ch.hi,
                    last_lines(&tail, 8)
                );
                std::process::exit(2);
            }
        }
    }
    let _ = std::fs::remove_file(&errfile);
}

pub fn describe_status(status: &std::process::ExitStatus, hung: bool) -> String {
    use std::os::unix::process::ExitStatusExt;
    if hung {
        return "killed by the hang watchdog".into();
    }
    match (status.code(), status.signal()) {
        (Some(c), _) => format!("exit status {c}"),
        (None, Some(s)) => format!("signal {s}"),
        _ => "unknown".into(),
    }
}

/// Runs all cases of a check, in worker processes.
pub fn run_all(e: &'static dyn Engine, ctx: &Ctx, agg: Aggregate) -> Aggregate {
    let mut chunks = VecDeque::new();
    for (pi, profile) in e.profiles(ctx.tier).iter().enumerate() {
        let n = e.runs(ctx.tier, profile);
        // different profiles explore different cases
        let base = (pi as u64) * 1_000_000_000;
        let per = (n / (ctx.jobs as u64 * 6)).clamp(1, 20_000);
        let mut lo = 0;
        while lo < n {
            let hi = (lo + per).min(n);
            chunks.push_back(Chunk { profile: profile.to_string(), lo: base + lo, hi: base + hi });
            lo = hi;
        }
    }
    let queue = Mutex::new(chunks);
    let agg = Mutex::new(agg);
    let stop_after: usize =
        std::env::var("VERIF_STOP_AFTER").ok().and_then(|s| s.parse().ok()).unwrap_or(300);
    // runs that show a listed known finding are expected on the unchanged tree: they must not end the batch
    let known_classes: HashSet<String> =
        load_findings(&ctx.verif_dir).into_iter().filter(|f| f.status == "finding" && f.property == e.id()).map(|f| f.signature).collect();
    let known_classes = &known_classes;
    let unlisted = move |a: &Aggregate| a.violations.iter().filter(|v| !known_classes.contains(&v.class)).count();
    std::thread::scope(|s| {
        for wid in 0..ctx.jobs {
            let queue = &queue;
            let agg = &agg;
            s.spawn(move || {
                loop {
                    if let Some(d) = ctx.deadline
                        && Instant::now() > d
                    {
                        return;
                    }
                    // enough evidence of a violation: do not spend the whole budget re-finding it
                    if unlisted(&agg.lock().unwrap()) >= stop_after {
                        return;
                    }
                    let Some(ch) = queue.lock().unwrap().pop_front() else { return };
                    run_chunk(e, ctx, &ch, agg, wid);
                }
            });
        }
    });
    let mut agg = agg.into_inner().unwrap();
    let left = queue.into_inner().unwrap();
    if !left.is_empty() {
        let n: u64 = left.iter().map(|c| c.hi - c.lo).sum();
        if unlisted(&agg) >= stop_after {
            agg.notes.push(format!("stopped early after {} violating runs: {n} planned cases were not run", agg.violations.len()));
        } else {
            agg.notes.push(format!("time budget reached: {n} planned cases were not run"));
        }
    }
    agg
}

/// Executes one case in a fresh process of the given profile.
pub fn run_isolated(e: &dyn Engine, ctx: &Ctx, profile: &str, case: &Value, tag: &str) -> RunResult {
    let file = ctx.tmp_dir.join(format!("case-{}-{tag}.json", std::process::id()));
    std::fs::write(&file, serde_json::to_string(case).unwrap()).expect("write case");
    let errfile = ctx.tmp_dir.join(format!("case-{}-{tag}.stderr", std::process::id()));
    let ef = std::fs::File::create(&errfile).expect("stderr file");
    let mut child = Command::new(ctx.bin(profile))
        .args(["exec", e.id(), file.to_str().unwrap()])
        .env("RUST_BACKTRACE", "0")
        .stdin(Stdio::null())
        .stdout(Stdio::piped())
        .stderr(ef)
        .spawn()
        .expect("spawn exec");
    let pid = child.id();
    let done = Arc::new(Mutex::new(false));
    let d2 = done.clone();
    let limit = Duration::from_secs(
        std::env::var("VERIF_HANG_SECS").ok().and_then(|s| s.parse().ok()).unwrap_or(180),
    );
    let wd = std::thread::spawn(move || {
        let t = Instant::now();
        loop {
            std::thread::sleep(Duration::from_millis(100));
            if *d2.lock().unwrap() {
                return false;
            }
            if t.elapsed() > limit {
                unsafe { libc::kill(pid as i32, libc::SIGKILL) };
                return true;
            }
        }
    });
    let mut text = String::new();
    let _ = child.stdout.take().unwrap().read_to_string(&mut text);
    let status = child.wait().expect("wait exec");
    *done.lock().unwrap() = true;
    let hung = wd.join().unwrap_or(false);
    let mut result = None;
    let mut stage = String::new();
    for line in text.lines() {
        if let Some(rest) = line.strip_prefix("E 0 ") {
            result = serde_json::from_str::<Value>(rest).ok().and_then(|j| RunResult::from_json(&j));
        } else if let Some(rest) = line.strip_prefix("P ") {
            stage = rest.trim().to_string();
        }
    }
    let r = match result {
        Some(r) if status.success() => r,
        _ => {
            let tail = std::fs::read(&errfile)
                .map(|b| String::from_utf8_lossy(&b).into_owned())
                .unwrap_or_default();
            let mut r = RunResult::new();
            r.verdict = if hung {
                Verdict::Violation { class: "hang".into(), msg: "no progress".into() }
            } else {
                e.classify_crash(&describe_status(&status, false), &tail, &stage)
            };
            r
        }
    };
    let _ = std::fs::remove_file(&file);
    let _ = std::fs::remove_file(&errfile);
    r
}

fn class_of(r: &RunResult) -> Option<&str> {
    match &r.verdict {
        Verdict::Violation { class, .. } => Some(class),
        _ => None,
    }
}

/// Greedy minimisation: candidates are tried in batches of `jobs` fresh processes; the first
/// (in candidate order) that still shows the same violation class is taken.
pub fn minimise(
    e: &'static dyn Engine,
    ctx: &Ctx,
    profile: &str,
    case: Value,
    class: &str,
) -> (Value, u64) {
    let mut cur = case;
    let mut calls = 0u64;
    let t0 = Instant::now();
    let budget_calls: u64 =
        std::env::var("VERIF_MIN_CALLS").ok().and_then(|s| s.parse().ok()).unwrap_or(1500);
    let budget = Duration::from_secs(
        std::env::var("VERIF_MIN_SECS").ok().and_then(|s| s.parse().ok()).unwrap_or(150),
    );
    'outer: loop {
        let cands = e.shrink(&cur);
        let mut k = 0;
        while k < cands.len() {
            if calls >= budget_calls || t0.elapsed() > budget {
                break 'outer;
            }
            let batch: Vec<&Value> = cands[k..].iter().take(ctx.jobs).collect();
            let results: Vec<RunResult> = std::thread::scope(|s| {
                let hs: Vec<_> = batch
                    .iter()
                    .enumerate()
                    .map(|(j, c)| {
                        s.spawn(move || run_isolated(e, ctx, profile, c, &format!("m{j}")))
                    })
                    .collect();
                hs.into_iter().map(|h| h.join().unwrap()).collect()
            });
            calls += batch.len() as u64;
            if let Some(j) = results.iter().position(|r| class_of(r) == Some(class)) {
                cur = e.concretise(batch[j], &results[j], false);
                continue 'outer;
            }
            k += batch.len();
        }
        break;
    }
    (cur, calls)
}

// ------------------------------------------------------------------ known findings

#[derive(Clone, Debug)]
pub struct Finding {
    pub status: String,
    pub property: String,
    pub signature: String,
    pub what: String,
}

pub fn load_findings(dir: &Path) -> Vec<Finding> {
    let mut v = vec![];
    let Ok(text) = std::fs::read_to_string(dir.join("known_findings.jsonl")) else { return v };
    for line in text.lines() {
        let line = line.trim();
        if line.is_empty() || line.starts_with('#') || line.starts_with("fixed:") {
            continue;
        }
        if let Ok(j) = serde_json::from_str::<Value>(line) {
            v.push(Finding {
                status: j["status"].as_str().unwrap_or("").to_string(),
                property: j["property"].as_str().unwrap_or("").to_string(),
                signature: j["signature"].as_str().unwrap_or("").to_string(),
                what: j["what"].as_str().unwrap_or("").to_string(),
            });
        }
    }
    v
}

// ------------------------------------------------------------------ the check

pub struct Outcome {
    pub exit: i32,
}

pub fn check(e: &'static dyn Engine, ctx: &Ctx) -> Outcome {
    let t0 = Instant::now();
    std::fs::create_dir_all(&ctx.tmp_dir).ok();
    println!(
        "VERIF_SEED={} property={} tier={} jobs={}",
        ctx.seed,
        e.id(),
        ctx.tier.name(),
        ctx.jobs
    );
    let mut agg = run_all(e, ctx, Aggregate::default());
    e.extra(ctx, &mut agg);

    // a few materialised cases for the evidence file
    for k in 0..3u64 {
        agg.samples.push(e.sample(&e.generate(ctx.seed, k, ctx.tier)));
    }

    let findings = load_findings(&ctx.verif_dir);
    let mut reported = 0;
    let mut known_lines: Vec<String> = vec![];
    let mut replays: Vec<String> = vec![];
    // one report per (profile, class); lowest index first so the report is stable
    let mut vs = agg.violations.clone();
    vs.sort_by(|a, b| (a.profile.clone(), a.index).cmp(&(b.profile.clone(), b.index)));
    let mut seen: HashSet<(String, String)> = HashSet::new();
    let mut unconfirmed: Vec<String> = vec![];
    let max_reports: usize =
        std::env::var("VERIF_MAX_REPORTS").ok().and_then(|s| s.parse().ok()).unwrap_or(3);
    for v in &vs {
        if seen.contains(&(v.profile.clone(), v.class.clone())) {
            continue;
        }
        if reported >= max_reports {
            break;
        }
        let case = e.generate(ctx.seed, v.index, ctx.tier);
        // (a) confirm alone in a fresh process. Cases that involve the real OS can depend on
        // timing; such a run is skipped (and said so) and the next violating run of the class is tried.
        let confirm = run_isolated(e, ctx, &v.profile, &case, "confirm");
        let Some(cclass) = class_of(&confirm).map(str::to_string) else {
            unconfirmed.push(format!("run {} ({}) reported `{}: {}` in the batch but passes alone", v.index, v.profile, v.class, v.msg));
            continue;
        };
        seen.insert((v.profile.clone(), v.class.clone()));
        // (b) minimise
        let start = e.concretise(&case, &confirm, false);
        let (small, calls) = if std::env::var("VERIF_NO_MINIMISE").is_ok() {
            (start, 0)
        } else {
            minimise(e, ctx, &v.profile, start, &cclass)
        };
        let last = run_isolated(e, ctx, &v.profile, &small, "final");
        let small = e.concretise(&small, &last, true);
        let last = run_isolated(e, ctx, &v.profile, &small, "final2");
        let (fclass, fmsg) = match &last.verdict {
            Verdict::Violation { class, msg } => (class.clone(), msg.clone()),
            _ => (cclass.clone(), v.msg.clone()),
        };
        let sig = e.signature(&small, &fclass, &fmsg);
        if let Some(f) = findings
            .iter()
            .find(|f| f.status == "finding" && f.property == e.id() && f.signature == sig)
        {
            known_lines.push(format!("KNOWN-FINDING: property={} {}", e.id(), f.what));
            continue;
        }
        // (c) replay file
        let dir = ctx.verif_dir.join("replays");
        std::fs::create_dir_all(&dir).ok();
        let path = dir.join(format!("{}-{}-{}-{}.json", e.id(), v.profile, ctx.seed, v.index));
        let doc = json!({
            "property": e.id(), "profile": v.profile, "seed": ctx.seed, "index": v.index,
            "tier": ctx.tier.name(), "class": fclass, "message": fmsg, "signature": sig,
            "first_seen": {"class": v.class, "message": v.msg},
            "minimisation": {"predicate_runs": calls,
                             "original_size": serde_json::to_string(&case).unwrap().len(),
                             "minimised_size": serde_json::to_string(&small).unwrap().len()},
            "detail": last.detail,
            "case": small,
        });
        std::fs::write(&path, serde_json::to_string_pretty(&doc).unwrap()).expect("write replay");
        // (d) the file must reproduce in yet another fresh process
        let again = run_isolated(e, ctx, &v.profile, &doc, "replay");
        if class_of(&again) != Some(fclass.as_str()) {
            eprintln!(
                "harness error: replay file {} does not reproduce ({:?})",
                path.display(),
                again.verdict
            );
            return Outcome { exit: 2 };
        }
        println!("VIOLATION property={} replay={}", e.id(), path.display());
        println!("  class={fclass} profile={} run={} :: {}", v.profile, v.index, fmsg);
        replays.push(path.display().to_string());
        reported += 1;
    }
    known_lines.dedup();
    for l in &known_lines {
        println!("{l}");
    }
    // violations seen in the batch of which not a single run reproduces alone: the engine (or the
    // real OS underneath a cross-check) is not deterministic there; never silently dropped
    let unreproduced: Vec<&Found> = vs.iter().filter(|v| !seen.contains(&(v.profile.clone(), v.class.clone()))).collect();
    if !unconfirmed.is_empty() {
        for u in unconfirmed.iter().take(5) {
            println!("NOTE: {u}");
        }
        agg.notes.extend(unconfirmed.iter().take(20).cloned());
    }
    if reported == 0 && reported < max_reports && !unreproduced.is_empty() {
        eprintln!(
            "harness error: {} violating run(s) of {} seen in the batch, none reproduces alone (first: run {} `{}: {}`)",
            unreproduced.len(), e.id(), unreproduced[0].index, unreproduced[0].class, unreproduced[0].msg
        );
        let wall = t0.elapsed().as_secs_f64();
        write_evidence(e, ctx, &agg, wall, 0, &replays, &known_lines);
        return Outcome { exit: 2 };
    }

    let wall = t0.elapsed().as_secs_f64();
    write_evidence(e, ctx, &agg, wall, reported as u64, &replays, &known_lines);
    println!(
        "{}: {} runs, {} passed, {} discarded, {} non-trivial distinct, {} violating runs ({} reported), {:.1}s",
        e.id(),
        agg.evaluations,
        agg.passes,
        agg.discards.values().sum::<u64>(),
        agg.distinct.len(),
        agg.violations.len(),
        reported,
        wall
    );
    Outcome { exit: if reported > 0 { 1 } else { 0 } }
}

pub fn write_evidence(
    e: &dyn Engine,
    ctx: &Ctx,
    agg: &Aggregate,
    wall: f64,
    violations: u64,
    replays: &[String],
    known: &[String],
) {
    // counters named info_* are expected to stay at zero on a correct tree (they count things the
    // statements do not forbid); every other counter at zero is a probe that the workload never reached
    let zero_probes: Vec<&String> =
        agg.counters.iter().filter(|(k, v)| **v == 0 && !k.starts_with("info_")).map(|(k, _)| k).collect();
    let per_hour = |n: u64| if wall > 0.0 { (n as f64 / wall * 3600.0) as u64 } else { 0 };
    let doc = json!({
        "property_id": e.id(),
        "tier": ctx.tier.name(),
        "seed": ctx.seed,
        "level": "exploration",
        "coverage": {
            "evaluations": agg.evaluations,
            "distinct_nontrivial": agg.distinct.len(),
            "rule": e.rule(),
            "samples": agg.samples,
            "passed": agg.passes,
            "nontrivial_runs": agg.nontrivial,
            "distinct_traces_all": agg.distinct_all.len(),
            "discarded": agg.discards,
            "violating_runs": agg.violations.len(),
            "runs_per_profile": agg.per_profile,
            "runs_per_hour": per_hour(agg.evaluations),
            "seeds_per_hour": per_hour(agg.evaluations),
            "simulated_ms": agg.sim_ms,
            "faults_and_probes_fired": agg.counters,
            "probes_stuck_at_zero": zero_probes,
            "components": e.components(),
            "replay_files": replays,
            "known_findings_matched": known,
            "notes": agg.notes,
            "exhaustive": false,
        },
        "assumptions": e.assumptions(),
        "wall_s": (wall * 100.0).round() / 100.0,
        "violations": violations,
    });
    let dir = ctx.verif_dir.join("evidence");
    std::fs::create_dir_all(&dir).ok();
    let path = dir.join(format!("{}.json", e.id()));
    std::fs::write(&path, serde_json::to_string_pretty(&doc).unwrap() + "\n").expect("evidence");
}

/// `simcheck replay <id> <file>`: same exit contract as a check.
pub fn replay(e: &'static dyn Engine, ctx: &Ctx, file: &str) -> i32 {
    std::fs::create_dir_all(&ctx.tmp_dir).ok();
    let text = match std::fs::read_to_string(file) {
        Ok(t) => t,
        Err(err) => {
            eprintln!("harness error: cannot read {file}: {err}");
            return 2;
        }
    };
    let doc: Value = match serde_json::from_str(&text) {
        Ok(v) => v,
        Err(err) => {
            eprintln!("harness error: {file} is not JSON: {err}");
            return 2;
        }
    };
    let profile = doc["profile"].as_str().unwrap_or("simdbg").to_string();
    let r = run_isolated(e, ctx, &profile, &doc, "replay");
    match &r.verdict {
        Verdict::Violation { class, msg } => {
            println!("VIOLATION property={} replay={file}", e.id());
            println!("  class={class} profile={profile} :: {msg}");
            if !r.detail.is_null() {
                // the full detail (event history, decisions) is in the replay file
                let d = r.detail.to_string();
                let cut: String = d.chars().take(1500).collect();
                println!("  detail: {cut}{}", if d.len() > cut.len() { " …" } else { "" });
                if let Some(h) = r.detail["history"].as_array() {
                    println!("  history ({} events, last 25):", h.len());
                    for l in h.iter().skip(h.len().saturating_sub(25)) {
                        println!("    {}", l.as_str().unwrap_or(""));
                    }
                }
            }
            if let Some(c) = doc["class"].as_str()
                && c != class
            {
                println!("  note: the file recorded class `{c}`");
            }
            1
        }
        other => {
            println!("replay of {file}: {other:?} (no violation on this tree)");
            0
        }
    }
}

/// Determinism self-test: the same indices, executed in different processes with different
/// worker counts, must produce identical trace hashes and verdicts.
pub fn selftest(e: &'static dyn Engine, ctx: &Ctx) -> i32 {
    std::fs::create_dir_all(&ctx.tmp_dir).ok();
    let mut maps = vec![];
    for jobs in [ctx.jobs, 3] {
        let c = Ctx {
            seed: ctx.seed,
            tier: ctx.tier,
            jobs,
            verif_dir: ctx.verif_dir.clone(),
            tmp_dir: ctx.tmp_dir.clone(),
            deadline: None,
        };
        let agg = Aggregate { hashes: Some(BTreeMap::new()), ..Aggregate::default() };
        let agg = run_all(e, &c, agg);
        maps.push(agg.hashes.unwrap());
    }
    let (a, b) = (&maps[0], &maps[1]);
    let mut bad = 0;
    for (k, v) in a {
        if b.get(k) != Some(v) {
            bad += 1;
            if bad <= 5 {
                println!("NONDETERMINISTIC {}: run {:?}: {:?} vs {:?}", e.id(), k, v, b.get(k));
            }
        }
    }
    println!(
        "selftest {}: {} runs executed twice ({} and 3 workers), {} differ",
        e.id(),
        a.len(),
        ctx.jobs,
        bad + a.len().abs_diff(b.len())
    );
    if bad == 0 && a.len() == b.len() { 0 } else { 2 }
}
