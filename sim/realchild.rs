// A real helper child for the cross-checks that run the shipped `naija` binary against the real
// operating system (no simulation): it reports exactly what it received, or plays a small script
// of writes / sleeps / exit. Built with plain rustc by `./check setup` (no dependencies).
//
//   realchild report                      print argv[0], argv (after "report"), VK_* environment, cwd and
//                                         stdin, hex encoded, one item per line
//   realchild play <op>...                out:<n>:<kind> err:<n>:<kind> sleep:<ms> exit:<code> drain
//                                         kinds: a (ascii pattern) m (multi-byte) b (one invalid byte)
use std::io::{Read, Write};

fn hex(b: &[u8]) -> String {
    let mut s = String::with_capacity(b.len() * 2);
    for x in b {
        s.push_str(&format!("{x:02x}"));
    }
    s
}

#[cfg(unix)]
fn os_bytes(s: &std::ffi::OsStr) -> Vec<u8> {
    use std::os::unix::ffi::OsStrExt;
    s.as_bytes().to_vec()
}

pub fn stream_bytes(stream: usize, offset: usize, len: usize, kind: &str) -> Vec<u8> {
    let base = if stream == 1 { b'a' } else { b'A' };
    let mut v = Vec::with_capacity(len + 2);
    let mut i = 0;
    while v.len() < len {
        let pos = offset + i;
        i += 1;
        if kind == "m" && pos % 5 == 4 && v.len() + 2 <= len {
            v.extend_from_slice(if stream == 1 { "ö".as_bytes() } else { "Ö".as_bytes() });
        } else {
            v.push(base + (pos % 23) as u8);
        }
    }
    if kind == "b" && len > 0 {
        v[len / 2] = if stream == 1 { 0xFF } else { 0xFE };
    }
    v
}

fn main() {
    let args: Vec<std::ffi::OsString> = std::env::args_os().collect();
    let mode = args.get(1).map(|a| a.to_string_lossy().into_owned()).unwrap_or_default();
    // proof that a child really ran
    if let Some(m) = std::env::var_os("VK_MARKER") {
        let _ = std::fs::write(&m, format!("{}", std::process::id()));
    }
    match mode.as_str() {
        "report" => {
            let mut out = String::new();
            // the program name exactly as the parent passed it
            out.push_str(&format!("arg0 {}\n", hex(&os_bytes(&args[0]))));
            for a in &args[2..] {
                out.push_str(&format!("arg {}\n", hex(&os_bytes(a))));
            }
            let mut env: Vec<(Vec<u8>, Vec<u8>)> = std::env::vars_os()
                .map(|(k, v)| (os_bytes(&k), os_bytes(&v)))
                .filter(|(k, _)| k.starts_with(b"VK_"))
                .collect();
            env.sort();
            for (k, v) in env {
                out.push_str(&format!("env {} {}\n", hex(&k), hex(&v)));
            }
            let cwd = std::env::current_dir().map(|p| os_bytes(p.as_os_str())).unwrap_or_default();
            out.push_str(&format!("cwd {}\n", hex(&cwd)));
            let mut input = Vec::new();
            let _ = std::io::stdin().read_to_end(&mut input);
            out.push_str(&format!("stdin {}\n", hex(&input)));
            out.push_str("end\n");
            let _ = std::io::stdout().write_all(out.as_bytes());
        }
        "play" => {
            let mut off = [0usize; 3];
            let stdout = std::io::stdout();
            let stderr = std::io::stderr();
            for op in &args[2..] {
                let op = op.to_string_lossy().into_owned();
                let parts: Vec<&str> = op.split(':').collect();
                match parts[0] {
                    "out" | "err" => {
                        let s = if parts[0] == "out" { 1 } else { 2 };
                        let n: usize = parts[1].parse().unwrap_or(0);
                        let data = stream_bytes(s, off[s], n, parts.get(2).copied().unwrap_or("a"));
                        off[s] += n;
                        let r = if s == 1 {
                            let mut h = stdout.lock();
                            h.write_all(&data).and_then(|()| h.flush())
                        } else {
                            let mut h = stderr.lock();
                            h.write_all(&data).and_then(|()| h.flush())
                        };
                        if r.is_err() {
                            std::process::exit(141);
                        }
                    }
                    "sleep" => std::thread::sleep(std::time::Duration::from_millis(parts[1].parse().unwrap_or(0))),
                    "drain" => {
                        let mut sink = Vec::new();
                        let _ = std::io::stdin().read_to_end(&mut sink);
                    }
                    "exit" => std::process::exit(parts[1].parse().unwrap_or(0)),
                    _ => {}
                }
            }
        }
        _ => {
            eprintln!("usage: realchild report | play <op>...");
            std::process::exit(64);
        }
    }
}
